(* C02 - control structures execute the statements SQF semantics prescribe.

   STATUS: PARTIAL.  The full statement wanted is the forward simulation
       vm_refines_ref : forall p f tr v, run_ref f p = "OK:" tr v -> exists n, the VM model run on compile_block p yields tr and v
   between the reference semantics (VM/RefSem.v, the reading of the property text) and the mechanism model of the
   stack machine (VM/VmDefs.v, VM/VmExec.v).  It is NOT proved for the whole language.  What is proved, for all
   arguments / states / arrays:
     - the forward simulation for STRUCTURED PROGRAMS (VM/SimDefs.v, SimProofs.v, SimBlock.v, SimCtl.v): statements `e`,
       `x = e`, `private _x = e` whose expressions are literals, variables (also holding code), arrays, the pure unary
       and binary operators, `call {..}`, `x call {..}`, `if c then {..}`, `if c then {..} else {..}`, nested to any
       depth in operands, array elements, assignments and blocks (big-step relation xev / xblock).  For every
       derivation: the reference semantics computes that value and state (C02_ref_runs_structured_blocks), and the VM
       model, started anywhere in any code that contains the compiled block, in any state that Matches the
       reference state (scope chain = frame chain, namespaces), pushes the frames, runs exactly those instructions,
       completes each frame handing over exactly the block's value, and stops in a state that Matches the reference
       result (C02_vm_runs_structured_blocks, C02_vm_runs_structured_expressions) - unbounded in size and nesting;
       execute_do, the loop of runtime.cpp, follows that path slice by slice, and a whole structured program loaded
       as the root frame ends with result `empty`, no frame and exactly the program's value (C02_structured_program_runs).
       The statement `if c exitWith {..}` is covered too (VM/SimExit.v, C02_vm_runs_blocks_with_exit): a scope left
       that way ends with the handler's value, nothing after it runs, everything the scope still held is dropped.
       The loops over an array with a code body - forEach, count, apply, select, findIf - are covered as well
       (C02_vm_runs_loops, C02_ref_runs_loops): one scope per element, the loop frame reused and reset by the pass that
       goes round, the accumulator of each kind, findIf's early stop, exitWith in the body ending the whole loop.
       Lazy && / and / || / or with a code block on the right are constructors of the same relation (ZLazySkip, ZLazyEnter).
       The for loop (from / to / step, the loop variable read back from the frame) is covered too (C02_vm_runs_for,
       C02_ref_runs_for).  So is while {..} do {..} (C02_vm_runs_while, C02_ref_runs_while): the loop frame runs the
       condition's and the body's instructions in turn, in one scope that is emptied before each; exitWith in either
       ends the loop; premises: no cap on loop rounds, a boolean condition, non-empty condition and body that begin
       with a push or a variable read.  Blocks are stated to start at a statement boundary (Fresh: the scope's part of
       the operand stack is empty, or holds the nil the calling operator left there).  A whole program whose top-level
       statements are of that relation, loaded as the root frame, is run by execute_do to result `empty` with exactly
       its value (VM/SimProg.v, C02_program_runs, C02_program_ref), also when the root scope itself is left by exitWith
       (C02_program_runs_with_exit).
       The markers a program logs (diag_log) are part of the matched state, so the theorems also say in which order statements
       run (C02_program_trace); with ns do {..}, getVariable / setVariable, private "x" and more operators are constructors.
       try {..} catch {..} with throw is covered for throws at statement level through call / if-then(-else) / handlers that
       throw again (C02_vm_runs_throw, C02_ref_runs_throw; machine lemmas in VM/SimThrowOps.v).
       scopeName / breakOut are covered the same way (C02_vm_runs_breakout, C02_ref_runs_breakout; VM/SimBreakOps.v): scope names are
       part of the matched state, breakOut at statement level through call / if-then(-else) ends exactly the named scope.
       switch - case - default is covered too (C02_switch_body_vm, C02_switch_body_ref and the constructors ZSwitchVal, ZSwitchNone, ZSwitchRun): fall-through
       labels, first match wins, default; the case values are pure expressions.
       LEAVING A LOOP: the body of forEach / count / apply / select / findIf, the body of for, the condition and the body of while may be
       left by a throw that a try-catch outside the loop takes and by breakOut to a scope name outside the loop (relations zloopleave /
       zileave / zfleave / zwleave, constructors ZTLoop / ZKLoop: C02_vm_runs_loop_throw, C02_vm_runs_loop_breakout, C02_ref_runs_loop_exit
       and the per-loop theorems C02_vm_runs_loops_exit / _for_exit / _while_exit), and by breakOut to the name the scope of the round
       itself carries (ZIterBreak, ZForBreak, ZWhileBreakCond, ZWhileBreakBody, inside C02_vm_runs_loops / _for / _while).
       EARLY EXITS OUT OF THE CHOSEN BLOCK OF A SWITCH: exitWith (the switch yields the handler's value), breakOut to the name of the switch's own
       scope, a throw taken outside the switch, breakOut to a scope outside (ZSwitchExit, ZSwitchBreak, ZLSwitchThrow, ZLSwitchBreak:
       C02_vm_switch_exitwith, C02_vm_switch_own_breakout, C02_vm_switch_throw, C02_vm_switch_breakout and their reference sides).
       AN EXIT RAISED INSIDE AN OPERAND: breakOut in every operand position (the waiting operands are dropped with the regions pop_clearing
       clears: C02_vm_operand_breakout), a throw where nothing waits on the stack (C02_vm_operand_throw_partial), also in x = e / private _x = e.
       exitWith INSIDE AN OPERAND, in every position (the waiting operands die with the scope's part of the operand stack): zexexit,
       C02_vm_operand_exitwith, C02_ref_operand_exitwith, at the root C02_vm_operand_exitwith_root.
       NOT covered by the simulation: a throw raised while evaluated operands wait on the stack (right operand,
       later array elements), a throw past the last handler, breakOut to a name no scope carries, waitUntil, nil operands, a while loop
       with an empty body or a non-boolean condition - for these the
       per-construct theorems below and the program-level differential are the evidence;
     - the compiler emits the post-order of the source (code blocks, binary operators, arrays);
     - per-construct characterisations of the VM model: which block is entered, with which bindings, how often, and when a
       construct ends (lazy && / ||, if-then-else, exitWith, forEach, count, select, apply, findIf, for, while, switch with
       fall-through and default, call);
     - laws of the reference semantics itself (skipped right operands, untaken branches, block values, determinism).
   The end-to-end claim "implementation = reference semantics" is decided on every run by the program-level differential
   of checks/C02.py (trace of executed marker statements, value, outcome class) on thousands of generated programs that
   nest all constructs with early exits; the VM model is tied to the implementation by the step-level differential.
   Related kernel-checked results used by this property live in Properties_C03 (scoping), Properties_C04 (handlers, throw),
   Properties_C05 (one value per scope, regions). *)
From Coq Require Import String Ascii.
From Coq Require Import ZArith List Bool Lia.
From SqfVerif Require Import Gen.DiagCodes Gen.Overloads VM.VmDefs VM.VmExec VM.RefSem VM.C02Proofs VM.SimDefs VM.SimProofs VM.SimBlock VM.SimCtl VM.SimRun VM.SimThrowOps VM.SimBreakOps VM.SimSwitchOps VM.SimExit VM.SimProg.
Import ListNotations.
Local Open Scope string_scope.
Local Open Scope list_scope.

Theorem C02_compile_code_is_block : forall b, compile_expr (ECode b) = [IPush (VCode (compile_block b))].
Proof. exact compile_code. Qed.
Print Assumptions C02_compile_code_is_block.
Theorem C02_compile_binary_postorder : forall n l r, compile_expr (EBinary n l r) = compile_expr l ++ compile_expr r ++ [IBinary (lower n)].
Proof. exact compile_binary. Qed.
Print Assumptions C02_compile_binary_postorder.

Theorem C02_lazy_and_skips_rhs : forall r c body, op_binary "&&" (VBool false) (VCode body) r c = Ok (r, c, VBool false).
Proof. exact lazy_and_skips. Qed.
Print Assumptions C02_lazy_and_skips_rhs.
Theorem C02_lazy_or_skips_rhs : forall r c body, op_binary "||" (VBool true) (VCode body) r c = Ok (r, c, VBool true).
Proof. exact lazy_or_skips. Qed.
Print Assumptions C02_lazy_or_skips_rhs.
Theorem C02_lazy_and_enters_rhs : forall r c body, op_binary "&&" (VBool true) (VCode body) r c =
  Ok (r, push_frame c (mk_frame (cur_ns c) body None None []), VNil).
Proof. exact lazy_and_enters. Qed.
Print Assumptions C02_lazy_and_enters_rhs.

Theorem C02_if_then_else_enters_exactly_one : forall r c b a e, op_binary "then" (VIf b) (VArr [VCode a; VCode e]) r c =
  Ok (r, push_frame c (mk_frame (cur_ns c) (if b then a else e) None None []), VNil).
Proof. exact if_then_else. Qed.
Print Assumptions C02_if_then_else_enters_exactly_one.
Theorem C02_if_false_runs_nothing : forall r c body, op_binary "then" (VIf false) (VCode body) r c = Ok (r, c, VNil).
Proof. exact if_then_false. Qed.
Print Assumptions C02_if_false_runs_nothing.

Theorem C02_exitwith_leaves_current_scope : forall r c body, op_binary "exitwith" (VIf true) (VCode body) r c =
  Ok (r, push_frame (upd_top c (fun f => set_die (set_pos f (S (length (f_code f)))) true)) (mk_frame (cur_ns c) body None None []), VNil).
Proof. exact exitwith_true. Qed.
Print Assumptions C02_exitwith_leaves_current_scope.
Theorem C02_exited_scope_does_not_iterate : forall fuel r c f rest, c_frames c = f :: rest -> at_end f = true -> f_die f = true ->
  frame_next (S fuel) r c = Ok (FDone, r, c).
Proof. exact dead_frame_is_done. Qed.
Print Assumptions C02_exited_scope_does_not_iterate.

Theorem C02_foreach_first_binding : forall r c body x arr, op_binary "foreach" (VCode body) (VArr (x :: arr)) r c =
  Ok (r, push_frame c (mk_frame (cur_ns c) body (Some (BForEach (x :: arr) 0)) None [("_x", x); ("_foreachindex", VNum 0)]), VNil).
Proof. exact foreach_enter. Qed.
Print Assumptions C02_foreach_first_binding.
Theorem C02_foreach_next_binding : forall r c arr idx, S idx <> length arr ->
  enact (BForEach arr idx) r c = Ok (BrSeekStart, BForEach arr (S idx), r,
    restart_with c [("_foreachindex", VNum (Z.of_nat (S idx))); ("_x", nth_val arr (S idx))]).
Proof. exact foreach_next. Qed.
Print Assumptions C02_foreach_next_binding.
Theorem C02_foreach_ends_after_last : forall r c arr idx, S idx = length arr ->
  enact (BForEach arr idx) r c = Ok (BrOk, BForEach arr (S idx), r, c).
Proof. exact foreach_last. Qed.
Print Assumptions C02_foreach_ends_after_last.

Theorem C02_count_counts_true_results : forall r c arr idx cnt t c1, pop_value c = Some (VBool t, c1) -> S idx = length arr ->
  enact (BCount arr idx cnt) r c = Ok (BrOk, BCount arr (S idx) (if t then cnt + 1 else cnt)%Z, r,
                                       push_value c1 (VNum (if t then cnt + 1 else cnt)%Z)).
Proof. exact count_last. Qed.
Print Assumptions C02_count_counts_true_results.
Theorem C02_select_keeps_true_elements : forall r c arr out idx t c1, pop_value c = Some (VBool t, c1) -> S idx <> length arr ->
  enact (BSelect arr out idx) r c = Ok (BrSeekStart, BSelect arr (if t then out ++ [nth_val arr idx] else out) (S idx), r,
                                        restart_with c1 [("_x", nth_val arr (S idx))]).
Proof. exact select_step. Qed.
Print Assumptions C02_select_keeps_true_elements.
Theorem C02_apply_collects_results : forall r c arr out idx v c1, pop_value c = Some (v, c1) -> S idx = length arr ->
  enact (BApply arr out idx) r c = Ok (BrOk, BApply arr (out ++ [v]) (S idx), r, push_value c1 (VArr (out ++ [v]))).
Proof. exact apply_last. Qed.
Print Assumptions C02_apply_collects_results.
Theorem C02_findif_first_true : forall r c arr idx c1, pop_value c = Some (VBool true, c1) ->
  enact (BFindIf arr idx) r c = Ok (BrOk, BFindIf arr idx, r, push_value c1 (VNum (Z.of_nat idx))).
Proof. exact findif_found. Qed.
Print Assumptions C02_findif_first_true.

Theorem C02_for_iteration_rule : forall r c f rest var to step x, c_frames c = f :: rest -> assoc (lower var) (f_vars f) = Some (VNum x) ->
  enact (BFor var to step) r c =
  if (if 0 <=? step then to <? x + step else x + step <? to)%Z then Ok (BrOk, BFor var to step, r, c)
  else Ok (BrSeekStart, BFor var to step, r, restart_with c [(lower var, VNum (x + step))]).
Proof. exact for_next. Qed.
Print Assumptions C02_for_iteration_rule.
Theorem C02_while_ends_on_false : forall r c l cond body c1, pop_value c = Some (VBool false, c1) ->
  enact (BWhile l WCond cond body) r c = Ok (BrOk, BWhile l WCond cond body, r, c1).
Proof. exact while_cond_false. Qed.
Print Assumptions C02_while_ends_on_false.

Theorem C02_switch_first_match_wins : forall c r l body sv tgt nw, get_variable c "___switch" = Some (VSwitch sv tgt nw true) ->
  op_binary ":" (VSwitch l [] false false) (VCode body) r c = Ok (r, c, VNil).
Proof. exact colon_ignored_after_match. Qed.
Print Assumptions C02_switch_first_match_wins.
Theorem C02_switch_case_arms_and_falls_through : forall c r v sv tgt nw hs, get_variable c "___switch" = Some (VSwitch sv tgt nw hs) ->
  op_unary "case" v r c = Ok (r, assign_local_var c "___switch" (VSwitch sv tgt (if veqb true v sv then true else nw) hs),
                              VSwitch sv tgt (if veqb true v sv then true else nw) hs).
Proof. exact case_arms. Qed.
Print Assumptions C02_switch_case_arms_and_falls_through.
Theorem C02_switch_default_only_without_match : forall c r body sv tgt nw, get_variable c "___switch" = Some (VSwitch sv tgt nw true) ->
  op_unary "default" (VCode body) r c = Ok (r, assign_local_var c "___switch" (VSwitch sv tgt nw true), VNil).
Proof. exact default_ignored_after_match. Qed.
Print Assumptions C02_switch_default_only_without_match.
Theorem C02_switch_runs_exactly_one_block : forall r c f rest sv t ts nw hs, c_frames c = f :: rest ->
  assoc "___switch" (f_vars f) = Some (VSwitch sv (t :: ts) nw hs) ->
  enact (BSwitch false) r c = Ok (BrExchange (t :: ts), BSwitch true, r, c) /\
  enact (BSwitch true) r c = Ok (BrOk, BSwitch true, r, c).
Proof. intros. split; [eapply switch_runs_target; eauto|apply switch_runs_once]. Qed.
Print Assumptions C02_switch_runs_exactly_one_block.

Theorem C02_ref_lazy_and_skips : forall f s b, eval (S (S (S f))) s (EBinary "&&" (EBool false) (ECode b)) = (ONormal (RBool false), s).
Proof. exact ref_lazy_and_skips. Qed.
Print Assumptions C02_ref_lazy_and_skips.
Theorem C02_ref_if_false : forall f s b, eval (S (S (S (S f)))) s (EBinary "then" (EUnary "if" (EBool false)) (ECode b)) = (ONormal RNil, s).
Proof. exact ref_if_false. Qed.
Print Assumptions C02_ref_if_false.

(* the reference semantics and the VM model agree on concrete programs (evaluated inside Coq): a nest of loops, a switch
   with fall-through, an early exit through two scopes *)
Definition ex_prog : list stmt :=
  [SLocal "_s" (ENum 0);
   SExpr (EBinary "forEach" (ECode [SExpr (EBinary "exitWith" (EUnary "if" (EBinary ">" (EVar "_x") (ENum 2))) (ECode [SExpr (EUnary "diag_log" (EStr "out"))]));
                                    SAssign "_s" (EBinary "+" (EVar "_s") (EVar "_x"))])
                    (EArr [ENum 1; ENum 2; ENum 3; ENum 4]));
   SExpr (EUnary "diag_log" (EVar "_s"));
   SExpr (EBinary "do" (EUnary "switch" (EVar "_s")) (ECode [SExpr (EUnary "case" (ENum 3)); SExpr (EBinary ":" (EUnary "case" (ENum 9)) (ECode [SExpr (ENum 77)]));
                                                             SExpr (EUnary "default" (ECode [SExpr (ENum 0)]))]))].
Example ex_ref_and_vm_agree :
  run_ref 200 ex_prog = "OK:M<out>,M<3>,V<77>" /\
  run_final (load (create_rt [] 0 0 (100 * 100) 150) (compile_block ex_prog)) = "-1:0:3:60019,M<out>,3:60019,M<3>,3:60095,M<VALUE 77>,".
Proof. split; vm_compute; reflexivity. Qed.

(* ---- simulation, expression fragment: one derivation pev loc glob e v yields both runs *)
Theorem C02_ref_evaluates_pure_expressions : forall loc glob e v, pev loc glob e v ->
  forall s f, renv_ok loc glob s -> esize e <= f -> eval f s e = (ONormal v, s).
Proof. intros loc glob e v H. exact (proj2 (proj1 (pure_ref loc glob) e v H)). Qed.
Print Assumptions C02_ref_evaluates_pure_expressions.
Theorem C02_vm_evaluates_pure_expressions : forall loc glob e v, pev loc glob e v ->
  forall r c f rest pre post,
    Good r c -> c_frames c = f :: rest -> f_code f = pre ++ compile_expr e ++ post -> f_pos f = length pre ->
    f_base f <= length (c_values c) -> env_ok loc glob r (f :: rest) (f_ns f) ->
    Steps r (upd_cur r (adv c f rest (length (compile_expr e)) [cv v])).
Proof. intros loc glob e v H r c f rest pre post G EF EC EP B ENV. exact (proj1 (proj1 (pure_sim loc glob) e v H r c f rest pre post G EF EC EP B ENV)). Qed.
Print Assumptions C02_vm_evaluates_pure_expressions.
(* the fragment is not empty: a nested expression over a local and a global variable *)
Example pure_fragment_inhabited :
  pev (fun k => if String.eqb k "_a" then Some (RNum 4) else None) (fun k => if String.eqb k "g" then Some (RArr [RNum 1]) else None)
      (EBinary "+" (EArr [EBinary "-" (EVar "_a") (ENum 1); EUnary "count" (EVar "g")]) (EArr [EBool true]))
      (RArr [RNum 3; RNum 1; RBool true]).
Proof.
  eapply PBin; [eapply PArr; eapply PCons; [eapply PBin; [eapply PVarL; reflexivity|eapply PNum|reflexivity]|
                   eapply PCons; [eapply PUn; [intros ? ?; discriminate|eapply PVarG; reflexivity|reflexivity]|eapply PNil]]
                  |eapply PArr; eapply PCons; [eapply PBool|eapply PNil]|reflexivity].
Qed.

(* ---- simulation, straight-line blocks: statements `e`, `x = e`, `private _x = e` over that fragment.  The reference
   state (scope chain, namespaces) and the machine state (frame chain, namespaces) are related by Match; At bundles it
   with "execute_do keeps going" and "the value region of the running frame is the block's value so far". *)
Theorem C02_ref_runs_straight_line_blocks : forall s reg b reg' s', pblock s reg b reg' s' ->
  forall f, bsize b <= f -> eval_block f s b reg = (ONormal reg', s').
Proof. exact block_ref. Qed.
Print Assumptions C02_ref_runs_straight_line_blocks.
Theorem C02_vm_runs_straight_line_blocks : forall s reg b reg' s', pblock s reg b reg' s' ->
  forall r c f rest below pre post, At s reg r c f rest below -> Fresh c below ->
    f_code f = pre ++ compile_block b ++ post -> f_pos f = length pre ->
    exists r' c' f' rest', Steps r r' /\ At s' reg' r' c' f' rest' below /\
      moved f f' /\ f_pos f' = f_pos f + length (compile_block b) /\ Forall2 kept rest rest'.
Proof. exact block_vm. Qed.
Print Assumptions C02_vm_runs_straight_line_blocks.

(* the hypotheses are satisfiable: a loaded program in a running machine stands At the initial reference state, and a
   three-statement block with a private variable, a global and an array has a derivation *)
Definition ex_block : list stmt :=
  [SLocal "_a" (ENum 2); SAssign "b" (EArr [EVar "_a"; EBinary "+" (EVar "_a") (ENum 1)]); SExpr (EUnary "count" (EVar "b"))].
Definition ex_running : rt :=
  let r := load (create_rt [] 0 0 (100 * 100) 150) (compile_block ex_block) in
  rt_with r (r_ctxs r) (Some 0) StRunning false false true false [] [] (r_nss r) (r_clock r) (r_timestamp r) (r_next_id r).
Example straight_line_inhabited :
  (exists c f, At init_state RNone ex_running c f [] [] /\ f_code f = [] ++ compile_block ex_block ++ [] /\ f_pos f = length (@nil instr)) /\
  (exists s', pblock init_state RNone ex_block (RNum 2) s').
Proof.
  split.
  - exists (push_frame (new_context 0 false) (mk_frame default_ns (compile_block ex_block) None None [])),
           (mk_frame default_ns (compile_block ex_block) None None []).
    split; [|split; [cbn [app]; rewrite app_nil_r|]; reflexivity].
    split; [unfold Good; split; [reflexivity|cbn; auto 10]|]. split; [reflexivity|]. split.
    + split; [|reflexivity]. cbn. constructor; [|constructor]. split; [intros k; reflexivity|split; [reflexivity|split; reflexivity]].
    + split; [reflexivity|]. exists []. split; reflexivity.
  - eexists. eapply PBCons; [eapply PSLocal; [discriminate|eapply PNum]|].
    eapply PBCons; [eapply PSAssign; [discriminate|reflexivity|]|].
    + eapply PArr. eapply PCons; [eapply PVarL; reflexivity|]. eapply PCons; [|eapply PNil].
      eapply PBin; [eapply PVarL; reflexivity|eapply PNum|reflexivity].
    + eapply PBLast. eapply PSExpr. eapply PUn; [intros ? ?; discriminate|eapply PVarG; reflexivity|reflexivity].
Qed.

(* ---- simulation, structured programs: expressions that enter blocks - `call {..}`, `x call {..}`, `if c then {..}`,
   `if c then {..} else {..}`, code values held in variables - nested to any depth in operands, array elements,
   assignments and blocks (relation xev / xblock of VM/SimCtl.v).  The machine pushes the frame, runs the block,
   completes the frame, hands over exactly the block's value, and ends in a state that Matches the reference result. *)
Theorem C02_ref_runs_structured_blocks : forall s reg b reg' s', xblock s reg b reg' s' ->
  exists f0, forall f, f0 <= f -> eval_block f s b reg = (ONormal reg', s').
Proof. exact (proj2 (proj2 (proj2 ref_runs))). Qed.
Print Assumptions C02_ref_runs_structured_blocks.
Theorem C02_vm_runs_structured_blocks : forall s reg b reg' s', xblock s reg b reg' s' ->
  forall r c f rest below pre post, AtM s reg r c f rest below -> Fresh c below ->
    f_code f = pre ++ compile_block b ++ post -> f_pos f = length pre ->
    exists r' c' f' rest', Steps r r' /\ AtM s' reg' r' c' f' rest' below /\
      moved f f' /\ f_pos f' = f_pos f + length (compile_block b) /\ Forall2 kept rest rest'.
Proof. exact (proj2 (proj2 (proj2 vm_runs))). Qed.
Print Assumptions C02_vm_runs_structured_blocks.
Theorem C02_vm_runs_structured_expressions : forall s e v s', xev s e v s' ->
  forall r c f rest pre post, Mach s r c f rest ->
    f_code f = pre ++ compile_expr e ++ post -> f_pos f = length pre ->
    exists r' c' f' rest', Steps r r' /\ Mach s' r' c' f' rest' /\ c_values c' = cv v :: c_values c /\
      moved f f' /\ f_pos f' = f_pos f + length (compile_expr e) /\ Forall2 kept rest rest'.
Proof. exact (proj1 vm_runs). Qed.
Print Assumptions C02_vm_runs_structured_expressions.

Definition ex_ctl : list stmt :=
  [SLocal "_f" (ECode [SExpr (EBinary "+" (EVar "_this") (ENum 1))]);
   SAssign "r" (EBinary "call" (ENum 2) (EVar "_f"));
   SExpr (EBinary "then" (EUnary "if" (EBinary ">" (EVar "r") (ENum 2)))
                         (EBinary "else" (ECode [SAssign "r" (ENum 10); SExpr (EVar "r")]) (ECode [SExpr (ENum 0)])))].
Example structured_inhabited : exists reg s', xblock init_state RNone ex_ctl reg s' /\ reg = RNum 10.
Proof.
  eexists _, _. split.
  { eapply XBCons; [eapply XSLocal; [discriminate|eapply XCode|split; discriminate]|].
    eapply XBCons.
    - eapply XSAssign; [discriminate|reflexivity| |].
      + eapply XCallB; [reflexivity|eapply XPure; eapply PNum|split; discriminate|eapply XVarL; [reflexivity|reflexivity|reflexivity|split; discriminate]|].
        eapply XBLast. eapply XSExprV. eapply XPure. eapply PBin; [eapply PVarL; reflexivity|eapply PNum|reflexivity].
      + split; discriminate.
    - eapply XBLast. eapply XSExprV.
      eapply (XThenElse _ _ _ _ true); [reflexivity| | |].
      + eapply XIf; [reflexivity|intros ? ?; discriminate|]. eapply XPure. eapply PBin; [eapply PVarG; reflexivity|eapply PNum|reflexivity].
      + eapply XElse; [reflexivity|eapply XCode|eapply XCode].
      + eapply XBCons; [eapply XSAssign; [discriminate|reflexivity|eapply XPure; eapply PNum|split; discriminate]|].
        eapply XBLast. eapply XSExprV. eapply XPure. eapply PVarG; reflexivity. }
  reflexivity.
Qed.

(* ---- from the step relation to execute_do (the loop of runtime.cpp) and to whole programs *)
Theorem C02_execute_do_follows_the_simulation : forall r r2, Steps r r2 -> forall fuel n x r', execute_do fuel r n = Ok (x, r') ->
  (exists fuel2 n2, fuel2 <= fuel /\ n2 <= n /\ execute_do fuel2 r2 n2 = Ok (x, r')) \/
  (x = ROk /\ Steps r r' /\ Steps r' r2).
Proof. exact execute_do_follows. Qed.
Print Assumptions C02_execute_do_follows_the_simulation.
(* a structured program loaded as the root frame of a context: the machine reaches a state in which the context has no
   frame left and holds exactly the program's value (nothing when the last statement is an assignment), the namespaces
   are those of the reference result, and the next pass reports `empty`; every slice of execute_do started on the
   program either is the one that finishes it (result empty, that state) or stops on the way (result ok) *)
Theorem C02_structured_program_runs : forall s p reg s' r c f,
  xblock s RNone p reg s' ->
  AtM s RNone r c f [] [] -> f_code f = compile_block p -> f_pos f = 0 -> f_exit f = None ->
  exists rf cf,
    Steps r rf /\ cur rf = Some cf /\ c_frames cf = [] /\
    c_values cf = match reg with RNone => [] | v => [cv v] end /\
    world rf = (mnss (st_nss s'), st_trace s') /\
    do_iter rf = Ok (Return REmpty rf) /\
    forall fuel n x r', execute_do fuel r n = Ok (x, r') ->
      (x = REmpty /\ r' = rf) \/ (x = ROk /\ Steps r r' /\ Steps r' rf).
Proof. exact program_run. Qed.
Print Assumptions C02_structured_program_runs.
(* its premises on a concrete machine: the loaded example program in a running VM *)
Definition ex_running_ctl : rt :=
  let r := load (create_rt [] 0 0 0 150) (compile_block ex_ctl) in
  rt_with r (r_ctxs r) (Some 0) StRunning false false true false [] [] (r_nss r) (r_clock r) (r_timestamp r) (r_next_id r).
Example structured_program_premises :
  let c := push_frame (new_context 0 false) (mk_frame default_ns (compile_block ex_ctl) None None []) in
  let f := mk_frame default_ns (compile_block ex_ctl) None None [] in
  AtM init_state RNone ex_running_ctl c f [] [] /\ f_code f = compile_block ex_ctl /\ f_pos f = 0 /\ f_exit f = None.
Proof.
  cbv zeta. split; [|repeat split].
  split; [|split; [reflexivity|exists []; split; reflexivity]].
  split; [unfold Good; split; [reflexivity|cbn; auto 10]|]. split; [reflexivity|]. split.
  - split; [|reflexivity]. cbn. constructor; [|constructor]. split; [intros k; reflexivity|split; [reflexivity|split; reflexivity]].
  - split; [cbn; lia|reflexivity].
Qed.

(* ---- simulation with exitWith: a block has an outcome (ran to its end / was left by `if c exitWith {..}`), the bodies of
   call / if-then / if-then-else may be left that way and handlers may nest (relation zev / zblock of VM/SimExit.v, which
   contains xev / xblock).  The machine marks the scope as finished, runs the handler as a new frame, completes it,
   completes the abandoned scope with the handler's value and drops whatever the scope still held. *)
Theorem C02_ref_runs_blocks_with_exit : forall s reg b out s', zblock s reg b out s' ->
  exists f0, forall f, f0 <= f -> eval_block f s b reg = (oc out, s').
Proof. exact (proj1 (proj2 (proj2 (proj2 ref_runs_z)))). Qed.
Print Assumptions C02_ref_runs_blocks_with_exit.
Theorem C02_vm_runs_blocks_with_exit : forall s reg b out s', zblock s reg b out s' ->
  forall r c f fc rest below pre, AtM s reg r c f (fc :: rest) below -> Fresh c below ->
    f_code f = pre ++ compile_block b -> f_pos f = length pre -> f_exit f = None -> f_base fc <= length below ->
    exists r' c' fc' rest', Steps r r' /\ Mach (pop_scope s') r' c' fc' rest' /\
      c_values c' = cv (val_of out) :: below /\ kept fc fc' /\ Forall2 kept rest rest'.
Proof. intros s reg b out s' H. exact (scope_ends_of_body _ _ _ _ _ (proj1 (proj2 (proj2 (proj2 vm_runs_z))) s reg b out s' H)). Qed.
Print Assumptions C02_vm_runs_blocks_with_exit.
Theorem C02_vm_runs_expressions_with_exit : forall s e v s', zev s e v s' ->
  forall r c f rest pre post, Mach s r c f rest ->
    f_code f = pre ++ compile_expr e ++ post -> f_pos f = length pre ->
    exists r' c' f' rest', Steps r r' /\ Mach s' r' c' f' rest' /\ c_values c' = cv v :: c_values c /\
      moved f f' /\ f_pos f' = f_pos f + length (compile_expr e) /\ Forall2 kept rest rest'.
Proof. exact (proj1 vm_runs_z). Qed.
Print Assumptions C02_vm_runs_expressions_with_exit.
(* a derivation that uses it: r = call { x = 1; if (x > 0) exitWith { x + 10 }; x = 99; 0 }  - the scope is left with 11,
   `x = 99` never runs *)
Definition ex_exit : expr :=
  EUnary "call" (ECode [SAssign "x" (ENum 1);
                        SExpr (EBinary "exitWith" (EUnary "if" (EBinary ">" (EVar "x") (ENum 0))) (ECode [SExpr (EBinary "+" (EVar "x") (ENum 10))]));
                        SAssign "x" (ENum 99); SExpr (ENum 0)]).
Example exit_inhabited : exists v s', zev init_state ex_exit v s' /\ v = RNum 11 /\ glob_of s' "x" = Some (RNum 1).
Proof.
  eexists _, _. split.
  { eapply ZCallU; [reflexivity|intros ? ?; discriminate|eapply ZCode|].
    eapply ZBCons; [eapply ZSAssign; [discriminate|reflexivity|eapply ZPure; eapply PNum|split; discriminate]|].
    eapply ZBExit; [reflexivity| | |].
    - eapply ZIf; [reflexivity|intros ? ?; discriminate|]. eapply ZPure. eapply PBin; [eapply PVarG; reflexivity|eapply PNum|reflexivity].
    - eapply ZCode.
    - eapply ZBLast. eapply ZSExprV. eapply ZPure. eapply PBin; [eapply PVarG; reflexivity|eapply PNum|reflexivity]. }
  split; reflexivity.
Qed.

(* ---- loops over an array with a code body (same file): forEach, count, apply, select, findIf.  One scope per element
   holding _x (and _forEachIndex), an accumulator per kind; the loop frame is reused, its variables and region are reset by
   the pass that goes round (which also executes the first instruction of the next round); the behaviour pops the body's
   value (a boolean for count / select / findIf, any value for apply); findIf stops at its first hit; exitWith in the body
   ends the whole loop with the handler's value.  ziter k s arr i body acc acc' s' = the rounds for the elements arr from
   index i on, with acc accumulated so far. *)
Theorem C02_ref_runs_loops : forall k s arr i body acc acc' s', ziter k s arr i body acc acc' s' ->
  exists f0, forall f, f0 <= f -> forall kk, length arr < kk ->
    iterate_f f kk s arr i body (kwith k) acc (kstep k) = (ONormal acc', s').
Proof. exact (proj1 (proj2 (proj2 (proj2 (proj2 ref_runs_z))))). Qed.
Print Assumptions C02_ref_runs_loops.
Theorem C02_vm_runs_loops : forall k s x rest0 i body acc acc' s', ziter k s (x :: rest0) i body acc acc' s' ->
  forall r c f fc frest below allarr b,
    AtM (enter s (kvars k i x)) (match i with O => RNil | _ => RNone end) r c f (fc :: frest) below -> Fresh c below ->
    f_code f = compile_block body -> f_pos f = 0 -> f_exit f = Some b -> kb k allarr i acc b -> f_die f = false ->
    skipn i allarr = x :: rest0 -> leaf_first body -> f_ns f = f_ns fc -> f_base fc <= length below ->
    exists r' c' fc' rest', Steps r r' /\ r' <> r /\ Mach s' r' c' fc' rest' /\ c_values c' = cv acc' :: below /\
      kept fc fc' /\ Forall2 kept frest rest'.
Proof. intros k s x rest0 i body acc acc' s' H. exact (proj1 (proj2 (proj2 (proj2 (proj2 vm_runs_z)))) k s (x :: rest0) i body acc acc' s' H). Qed.
Print Assumptions C02_vm_runs_loops.
(* derivations: s = 0; { s = s + _x; if (_x > 1) exitWith { s } } forEach [1, 2, 3]  - two rounds, the second leaves the loop
   with 3;  [1, 5, 2] findIf { _x > 3 }  - stops at index 1;  { _x > 1 } count [1, 2, 3] = 2 *)
Definition ex_foreach : expr :=
  EBinary "forEach" (ECode [SAssign "s" (EBinary "+" (EVar "s") (EVar "_x"));
                            SExpr (EBinary "exitWith" (EUnary "if" (EBinary ">" (EVar "_x") (ENum 1))) (ECode [SExpr (EVar "s")]))])
                    (EArr [ENum 1; ENum 2; ENum 3]).
Example foreach_inhabited : exists s0 v s', glob_of s0 "s" = Some (RNum 0) /\ zev s0 ex_foreach v s' /\ v = RNum 3 /\ glob_of s' "s" = Some (RNum 3).
Proof.
  exists (rns_set init_state default_ns "s" (RNum 0)). eexists _, _. split; [reflexivity|]. split.
  { eapply (ZLoopCA _ _ _ _ _ _ _ KForEach); [reflexivity|reflexivity| |eapply ZCode| |].
    - eexists _, _. split; [reflexivity|]. right. eexists. reflexivity.
    - eapply ZPure. eapply PArr. eapply PCons; [eapply PNum|]. eapply PCons; [eapply PNum|]. eapply PCons; [eapply PNum|eapply PNil].
    - eapply ZIterCons; [eapply ZBCons;
          [eapply ZSAssign; [discriminate|reflexivity|eapply ZPure; eapply PBin; [eapply PVarG; reflexivity|eapply PVarL; reflexivity|reflexivity]|split; discriminate]
          |eapply ZBLast; eapply ZSExprV; eapply ZExitSkip; [reflexivity| |eapply ZCode];
           eapply ZIf; [reflexivity|intros ? ?; discriminate|]; eapply ZPure; eapply PBin; [eapply PVarL; reflexivity|eapply PNum|reflexivity]]
        | reflexivity | exact I |].
      eapply ZIterExit.
        eapply ZBCons.
        * eapply ZSAssign; [discriminate|reflexivity|eapply ZPure; eapply PBin; [eapply PVarG; reflexivity|eapply PVarL; reflexivity|reflexivity]|split; discriminate].
        * eapply ZBExit; [reflexivity| |eapply ZCode|].
          -- eapply ZIf; [reflexivity|intros ? ?; discriminate|]. eapply ZPure. eapply PBin; [eapply PVarL; reflexivity|eapply PNum|reflexivity].
          -- eapply ZBLast. eapply ZSExprV. eapply ZPure. eapply PVarG; reflexivity. }
  split; reflexivity.
Qed.
Definition ex_findif : expr := EBinary "findIf" (EArr [ENum 1; ENum 5; ENum 2]) (ECode [SExpr (EBinary ">" (EVar "_x") (ENum 3))]).
Example findif_inhabited : exists v s', zev init_state ex_findif v s' /\ v = RNum 1.
Proof.
  eexists _, _. split.
  { eapply (ZLoopAC _ _ _ _ _ _ _ KFindIf); [reflexivity|reflexivity| | |eapply ZCode|].
    - eexists _, _. split; [reflexivity|]. right. eexists. reflexivity.
    - eapply ZPure. eapply PArr. eapply PCons; [eapply PNum|]. eapply PCons; [eapply PNum|]. eapply PCons; [eapply PNum|eapply PNil].
    - eapply ZIterCons; [eapply ZBLast; eapply ZSExprV; eapply ZPure; eapply PBin; [eapply PVarL; reflexivity|eapply PNum|reflexivity] | reflexivity | eexists; reflexivity |].
      eapply ZIterStop; [eapply ZBLast; eapply ZSExprV; eapply ZPure; eapply PBin; [eapply PVarL; reflexivity|eapply PNum|reflexivity] | reflexivity | eexists; reflexivity]. }
  reflexivity.
Qed.
Definition ex_count : expr := EBinary "count" (ECode [SExpr (EBinary ">" (EVar "_x") (ENum 1))]) (EArr [ENum 1; ENum 2; ENum 3]).
Example count_inhabited : exists v s', zev init_state ex_count v s' /\ v = RNum 2.
Proof.
  eexists _, _. split.
  { eapply (ZLoopCA _ _ _ _ _ _ _ KCount); [reflexivity|reflexivity| |eapply ZCode| |].
    - eexists _, _. split; [reflexivity|]. right. eexists. reflexivity.
    - eapply ZPure. eapply PArr. eapply PCons; [eapply PNum|]. eapply PCons; [eapply PNum|]. eapply PCons; [eapply PNum|eapply PNil].
    - eapply ZIterCons; [eapply ZBLast; eapply ZSExprV; eapply ZPure; eapply PBin; [eapply PVarL; reflexivity|eapply PNum|reflexivity] | reflexivity | eexists; reflexivity |].
      eapply ZIterCons; [eapply ZBLast; eapply ZSExprV; eapply ZPure; eapply PBin; [eapply PVarL; reflexivity|eapply PNum|reflexivity] | reflexivity | eexists; reflexivity |].
      eapply ZIterCons; [eapply ZBLast; eapply ZSExprV; eapply ZPure; eapply PBin; [eapply PVarL; reflexivity|eapply PNum|reflexivity] | reflexivity | eexists; reflexivity | eapply ZIterNil]. }
  reflexivity.
Qed.

(* ---- for "_i" from a to b step c do {..} (same file): one scope per round holding the loop variable, which the machine reads
   back from the frame when the body has run out (zfor var to st s x first body acc s' = the rounds from the value x on) *)
Theorem C02_ref_runs_for : forall var to st s x first body acc s', zfor var to st s x first body acc s' ->
  exists f0 k0, forall f, f0 <= f -> forall k, k0 <= k -> for_loop_f f var to st body k s x first = (ONormal acc, s').
Proof. exact (proj1 (proj2 (proj2 (proj2 (proj2 (proj2 ref_runs_z)))))). Qed.
Print Assumptions C02_ref_runs_for.
Theorem C02_vm_runs_for : forall var to st s x first body acc s', zfor var to st s x first body acc s' ->
  forall r c f fc frest below,
    AtM (enter s [(lower var, RNum x)]) (if first then RNil else RNone) r c f (fc :: frest) below -> Fresh c below ->
    f_code f = compile_block body -> f_pos f = 0 -> f_exit f = Some (BFor var to st) -> f_die f = false ->
    leaf_first body -> f_ns f = f_ns fc -> f_base fc <= length below ->
    exists r' c' fc' rest', Steps r r' /\ r' <> r /\ Mach s' r' c' fc' rest' /\ c_values c' = cv acc :: below /\
      kept fc fc' /\ Forall2 kept frest rest'.
Proof. exact (proj1 (proj2 (proj2 (proj2 (proj2 (proj2 vm_runs_z)))))). Qed.
Print Assumptions C02_vm_runs_for.
(* a derivation: t = 0; for "_i" from 1 to 3 do { t = t + _i }  leaves t = 6 *)
Definition ex_for : expr :=
  EBinary "do" (EBinary "to" (EBinary "from" (EUnary "for" (EStr "_i")) (ENum 1)) (ENum 3))
               (ECode [SAssign "t" (EBinary "+" (EVar "t") (EVar "_i"))]).
Example for_inhabited : exists s0 v s', glob_of s0 "t" = Some (RNum 0) /\ zev s0 ex_for v s' /\ glob_of s' "t" = Some (RNum 6).
Proof.
  exists (rns_set init_state default_ns "t" (RNum 0)). eexists _, _. split; [reflexivity|]. split.
  { eapply ZForLoop; [reflexivity| |eapply ZCode| | |].
    - eapply ZForSet; [| |eapply ZPure; eapply PNum].
      2: { eapply ZForSet; [| |eapply ZPure; eapply PNum].
           2: { eapply ZForVar; [reflexivity|intros ? ?; discriminate|eapply ZPure; eapply PStr]. }
           reflexivity. }
      reflexivity.
    - reflexivity.
    - eexists _, _. split; [reflexivity|]. right. eexists. reflexivity.
    - eapply ZForRound; [eapply ZBLast; eapply ZSAssign; [discriminate|reflexivity|eapply ZPure; eapply PBin; [eapply PVarG; reflexivity|eapply PVarL; reflexivity|reflexivity]|split; discriminate]
                        |reflexivity|reflexivity|reflexivity|].
      eapply ZForRound; [eapply ZBLast; eapply ZSAssign; [discriminate|reflexivity|eapply ZPure; eapply PBin; [eapply PVarG; reflexivity|eapply PVarL; reflexivity|reflexivity]|split; discriminate]
                        |reflexivity|reflexivity|reflexivity|].
      eapply ZForLast; [eapply ZBLast; eapply ZSAssign; [discriminate|reflexivity|eapply ZPure; eapply PBin; [eapply PVarG; reflexivity|eapply PVarL; reflexivity|reflexivity]|split; discriminate]
                       |reflexivity|reflexivity|reflexivity]. }
  reflexivity.
Qed.

(* ---- while {..} do {..}: the loop frame runs the condition's and the body's instructions in turn (the behaviour exchanges them),
   in one scope that is emptied before each; the loop yields nil, or the value an exitWith in the condition or in the body
   leaves it with.  Premises: no cap on loop rounds (part of Mach), the condition yields a boolean, condition and body are
   not empty and begin with a push or a variable read (the pass of execute_do that exchanges the instructions also executes
   the first of the new ones). *)
Theorem C02_ref_runs_while : forall cond body s first v s', zwhile cond body s first v s' ->
  exists f0 k0, forall f, f0 <= f -> forall k, k0 <= k -> forall n, first = Nat.eqb n 0 ->
    while_loop_f f cond body k s n = (ONormal v, s').
Proof. exact (proj1 (proj2 (proj2 (proj2 (proj2 (proj2 (proj2 ref_runs_z))))))). Qed.
Print Assumptions C02_ref_runs_while.
Theorem C02_vm_runs_while : forall cond body s first v s', zwhile cond body s first v s' ->
  forall r c f fc frest below loops,
    AtM (enter s []) (if first then RNil else RNone) r c f (fc :: frest) below -> Fresh c below ->
    f_code f = compile_block cond -> f_pos f = 0 ->
    f_exit f = Some (BWhile loops WCond (compile_block cond) (compile_block body)) -> f_die f = false ->
    leaf_first cond -> leaf_first body -> f_ns f = f_ns fc -> f_base fc <= length below ->
    exists r' c' fc' rest', Steps r r' /\ r' <> r /\ Mach s' r' c' fc' rest' /\ c_values c' = cv v :: below /\
      kept fc fc' /\ Forall2 kept frest rest'.
Proof. exact (proj1 (proj2 (proj2 (proj2 (proj2 (proj2 (proj2 vm_runs_z))))))). Qed.
Print Assumptions C02_vm_runs_while.
(* a derivation: i = 0; while { i < 3 } do { i = i + 1 }  goes round three times, leaves i = 3 and yields nil *)
Definition ex_while : expr :=
  EBinary "do" (EUnary "while" (ECode [SExpr (EBinary "<" (EVar "i") (ENum 3))]))
               (ECode [SAssign "i" (EBinary "+" (EVar "i") (ENum 1))]).
Example while_inhabited : exists s0 s', glob_of s0 "i" = Some (RNum 0) /\ zev s0 ex_while RNil s' /\ glob_of s' "i" = Some (RNum 3).
Proof.
  exists (rns_set init_state default_ns "i" (RNum 0)). eexists. split; [reflexivity|]. split.
  { eapply ZWhileLoop; [reflexivity|eapply ZWhileVal; [reflexivity|intros ? ?; discriminate|eapply ZCode]|eapply ZCode| | |].
    - eexists _, _. split; [reflexivity|]. right. eexists. reflexivity.
    - eexists _, _. split; [reflexivity|]. right. eexists. reflexivity.
    - eapply ZWhileRound; [eapply ZBLast; eapply ZSExprV; eapply ZPure; eapply PBin; [eapply PVarG; reflexivity|eapply PNum|reflexivity]
                          |eapply ZBLast; eapply ZSAssign; [discriminate|reflexivity|eapply ZPure; eapply PBin; [eapply PVarG; reflexivity|eapply PNum|reflexivity]|split; discriminate]|].
      eapply ZWhileRound; [eapply ZBLast; eapply ZSExprV; eapply ZPure; eapply PBin; [eapply PVarG; reflexivity|eapply PNum|reflexivity]
                          |eapply ZBLast; eapply ZSAssign; [discriminate|reflexivity|eapply ZPure; eapply PBin; [eapply PVarG; reflexivity|eapply PNum|reflexivity]|split; discriminate]|].
      eapply ZWhileRound; [eapply ZBLast; eapply ZSExprV; eapply ZPure; eapply PBin; [eapply PVarG; reflexivity|eapply PNum|reflexivity]
                          |eapply ZBLast; eapply ZSAssign; [discriminate|reflexivity|eapply ZPure; eapply PBin; [eapply PVarG; reflexivity|eapply PNum|reflexivity]|split; discriminate]|].
      eapply ZWhileStop. eapply ZBLast; eapply ZSExprV; eapply ZPure; eapply PBin; [eapply PVarG; reflexivity|eapply PNum|reflexivity]. }
  reflexivity.
Qed.

(* ---- whole programs with loops: the top-level statements are statements of the relation above (expressions,
   assignments and private bindings over call, if-then-else, the array loops, for, while, lazy operators, with exitWith
   anywhere below the top level).  The reference semantics computes the program's value and final state; the VM model,
   with the compiled program as the root frame of a context, is run by execute_do slice by slice: the slice that finishes
   it returns `empty`, no frame is left, the context holds exactly the program's value, the namespaces are those of the
   reference result. *)
Theorem C02_program_ref : forall s reg p reg' s', zprog s reg p reg' s' ->
  exists f0, forall f, f0 <= f -> eval_block f s p reg = (ONormal reg', s').
Proof. exact zprog_ref. Qed.
Print Assumptions C02_program_ref.
Theorem C02_program_runs : forall s p reg s' r c f,
  zprog s RNone p reg s' ->
  AtM s RNone r c f [] [] -> f_code f = compile_block p -> f_pos f = 0 -> f_exit f = None ->
  exists rf cf,
    Steps r rf /\ cur rf = Some cf /\ c_frames cf = [] /\
    c_values cf = match reg with RNone => [] | v => [cv v] end /\
    world rf = (mnss (st_nss s'), st_trace s') /\
    do_iter rf = Ok (Return REmpty rf) /\
    forall fuel n x r', execute_do fuel r n = Ok (x, r') ->
      (x = REmpty /\ r' = rf) \/ (x = ROk /\ Steps r r' /\ Steps r' rf).
Proof. exact program_run_z. Qed.
Print Assumptions C02_program_runs.
(* a program of that kind and its premises on a concrete machine:  i = 0; while { i < 3 } do { i = i + 1 }; i  yields 3 *)
Definition ex_loop_prog : list stmt :=
  [SAssign "i" (ENum 0); SExpr ex_while; SExpr (EVar "i")].
Example program_inhabited : exists s', zprog init_state RNone ex_loop_prog (RNum 3) s' /\ glob_of s' "i" = Some (RNum 3).
Proof.
  eexists. split.
  { eapply ZPCons; [eapply ZSAssign; [discriminate|reflexivity|eapply ZPure; eapply PNum|split; discriminate]|].
    eapply ZPCons.
    - eapply ZSExprV. eapply ZWhileLoop; [reflexivity|eapply ZWhileVal; [reflexivity|intros ? ?; discriminate|eapply ZCode]|eapply ZCode| | |].
      + eexists _, _. split; [reflexivity|]. right. eexists. reflexivity.
      + eexists _, _. split; [reflexivity|]. right. eexists. reflexivity.
      + eapply ZWhileRound; [eapply ZBLast; eapply ZSExprV; eapply ZPure; eapply PBin; [eapply PVarG; reflexivity|eapply PNum|reflexivity]
                            |eapply ZBLast; eapply ZSAssign; [discriminate|reflexivity|eapply ZPure; eapply PBin; [eapply PVarG; reflexivity|eapply PNum|reflexivity]|split; discriminate]|].
        eapply ZWhileRound; [eapply ZBLast; eapply ZSExprV; eapply ZPure; eapply PBin; [eapply PVarG; reflexivity|eapply PNum|reflexivity]
                            |eapply ZBLast; eapply ZSAssign; [discriminate|reflexivity|eapply ZPure; eapply PBin; [eapply PVarG; reflexivity|eapply PNum|reflexivity]|split; discriminate]|].
        eapply ZWhileRound; [eapply ZBLast; eapply ZSExprV; eapply ZPure; eapply PBin; [eapply PVarG; reflexivity|eapply PNum|reflexivity]
                            |eapply ZBLast; eapply ZSAssign; [discriminate|reflexivity|eapply ZPure; eapply PBin; [eapply PVarG; reflexivity|eapply PNum|reflexivity]|split; discriminate]|].
        eapply ZWhileStop. eapply ZBLast; eapply ZSExprV; eapply ZPure; eapply PBin; [eapply PVarG; reflexivity|eapply PNum|reflexivity].
    - eapply ZPLast. eapply ZSExprV. eapply ZPure. eapply PVarG; reflexivity. }
  reflexivity.
Qed.
Definition ex_running_loop : rt :=
  let r := load (create_rt [] 0 0 0 150) (compile_block ex_loop_prog) in
  rt_with r (r_ctxs r) (Some 0) StRunning false false true false [] [] (r_nss r) (r_clock r) (r_timestamp r) (r_next_id r).
Example program_premises :
  let c := push_frame (new_context 0 false) (mk_frame default_ns (compile_block ex_loop_prog) None None []) in
  let f := mk_frame default_ns (compile_block ex_loop_prog) None None [] in
  AtM init_state RNone ex_running_loop c f [] [] /\ f_code f = compile_block ex_loop_prog /\ f_pos f = 0 /\ f_exit f = None.
Proof.
  cbv zeta. split; [|repeat split].
  split; [|split; [reflexivity|exists []; split; reflexivity]].
  split; [unfold Good; split; [reflexivity|cbn; auto 10]|]. split; [reflexivity|]. split.
  - split; [|reflexivity]. cbn. constructor; [|constructor]. split; [intros k; reflexivity|split; [reflexivity|split; reflexivity]].
  - split; [cbn; lia|reflexivity].
Qed.

(* the same for a program whose ROOT scope may be left by `if c exitWith {..}` (the usual `if (..) exitWith {..};` at the top of a
   script): the handler runs as a frame of its own, the abandoned root frame completes with the handler's value and drops what
   it still held, nothing behind the exitWith statement runs; the reference side is C02_ref_runs_blocks_with_exit *)
Theorem C02_program_runs_with_exit : forall s p out s' r c f,
  zblock s RNone p out s' ->
  AtM s RNone r c f [] [] -> f_code f = compile_block p -> f_pos f = 0 -> f_exit f = None ->
  exists rf cf,
    Steps r rf /\ cur rf = Some cf /\ c_frames cf = [] /\ c_values cf = root_value out /\
    world rf = (mnss (st_nss s'), st_trace s') /\
    do_iter rf = Ok (Return REmpty rf) /\
    forall fuel n x r', execute_do fuel r n = Ok (x, r') ->
      (x = REmpty /\ r' = rf) \/ (x = ROk /\ Steps r r' /\ Steps r' rf).
Proof. exact program_run_exit. Qed.
Print Assumptions C02_program_runs_with_exit.
(* a derivation:  x = 1; if (x > 0) exitWith { x + 10 }; x = 99; 0   - the script ends with 11, `x = 99` never runs *)
Definition ex_root_exit : list stmt :=
  [SAssign "x" (ENum 1);
   SExpr (EBinary "exitWith" (EUnary "if" (EBinary ">" (EVar "x") (ENum 0))) (ECode [SExpr (EBinary "+" (EVar "x") (ENum 10))]));
   SAssign "x" (ENum 99); SExpr (ENum 0)].
Example root_exit_inhabited : exists s', zblock init_state RNone ex_root_exit (BExit (RNum 11)) s' /\ glob_of s' "x" = Some (RNum 1) /\
  root_value (BExit (RNum 11)) = [VNum 11].
Proof.
  eexists. split.
  { eapply ZBCons; [eapply ZSAssign; [discriminate|reflexivity|eapply ZPure; eapply PNum|split; discriminate]|].
    change (BExit (RNum 11)) with (BExit (val_of (BNorm (RNum 11)))).
    eapply ZBExit; [reflexivity| | |].
    - eapply ZIf; [reflexivity|intros ? ?; discriminate|]. eapply ZPure. eapply PBin; [eapply PVarG; reflexivity|eapply PNum|reflexivity].
    - eapply ZCode.
    - eapply ZBLast. eapply ZSExprV. eapply ZPure. eapply PBin; [eapply PVarG; reflexivity|eapply PNum|reflexivity]. }
  split; reflexivity.
Qed.

(* ---- what the property observes: "the sequence of statements executed", seen through the markers a program logs with
   diag_log.  Match relates the machine's log to the trace of the reference state (world: namespaces and markers), diag_log is
   a constructor of the relation (ZDiag), so every theorem above also says that the markers are logged in the order of the
   reference semantics; for a whole program: the markers the machine has logged when execute_do returns `empty` are exactly
   the reference run's, in the same order.  The relation also covers the namespaces a program can name (missionNamespace,
   uiNamespace), with ns do {..}, getVariable / setVariable on them, private "x", and the operators str, unary - and +, *,
   ==, !=, isEqualTo next to the earlier ones. *)
Theorem C02_program_trace : forall s p reg s' r c f,
  zprog s RNone p reg s' ->
  AtM s RNone r c f [] [] -> f_code f = compile_block p -> f_pos f = 0 -> f_exit f = None ->
  (exists f0, forall fl, f0 <= fl -> st_trace (snd (eval_block fl s p RNone)) = st_trace s') /\
  exists rf, Steps r rf /\ do_iter rf = Ok (Return REmpty rf) /\ marks (r_out rf) = st_trace s' /\
             forall fuel n x r', execute_do fuel r n = Ok (x, r') -> x = REmpty -> marks (r_out r') = st_trace s'.
Proof. exact program_trace. Qed.
Print Assumptions C02_program_trace.
(* i = 0; while { i < 3 } do { diag_log i; i = i + 1 }  logs 0, 1, 2 in that order (the trace is kept newest first) *)
Definition ex_trace_prog : list stmt :=
  [SAssign "i" (ENum 0);
   SExpr (EBinary "do" (EUnary "while" (ECode [SExpr (EBinary "<" (EVar "i") (ENum 3))]))
                       (ECode [SExpr (EUnary "diag_log" (EVar "i")); SAssign "i" (EBinary "+" (EVar "i") (ENum 1))]))].
Example trace_inhabited : exists s', zprog init_state RNone ex_trace_prog RNil s' /\ st_trace s' = ["2"; "1"; "0"].
Proof.
  eexists. split.
  { eapply ZPCons; [eapply ZSAssign; [discriminate|reflexivity|eapply ZPure; eapply PNum|split; discriminate]|].
    eapply ZPLast. eapply ZSExprV. eapply ZWhileLoop; [reflexivity|eapply ZWhileVal; [reflexivity|intros ? ?; discriminate|eapply ZCode]|eapply ZCode| | |].
    - eexists _, _. split; [reflexivity|]. right. eexists. reflexivity.
    - eexists _, _. split; [reflexivity|]. right. eexists. reflexivity.
    - eapply ZWhileRound; [eapply ZBLast; eapply ZSExprV; eapply ZPure; eapply PBin; [eapply PVarG; reflexivity|eapply PNum|reflexivity]
                          |eapply ZBCons; [eapply ZSExprV; eapply ZDiag; [reflexivity|intros ? ?; discriminate|eapply ZPure; eapply PVarG; reflexivity|split; discriminate|reflexivity]|];
                           eapply ZBLast; eapply ZSAssign; [discriminate|reflexivity|eapply ZPure; eapply PBin; [eapply PVarG; reflexivity|eapply PNum|reflexivity]|split; discriminate]|].
      eapply ZWhileRound; [eapply ZBLast; eapply ZSExprV; eapply ZPure; eapply PBin; [eapply PVarG; reflexivity|eapply PNum|reflexivity]
                          |eapply ZBCons; [eapply ZSExprV; eapply ZDiag; [reflexivity|intros ? ?; discriminate|eapply ZPure; eapply PVarG; reflexivity|split; discriminate|reflexivity]|];
                           eapply ZBLast; eapply ZSAssign; [discriminate|reflexivity|eapply ZPure; eapply PBin; [eapply PVarG; reflexivity|eapply PNum|reflexivity]|split; discriminate]|].
      eapply ZWhileRound; [eapply ZBLast; eapply ZSExprV; eapply ZPure; eapply PBin; [eapply PVarG; reflexivity|eapply PNum|reflexivity]
                          |eapply ZBCons; [eapply ZSExprV; eapply ZDiag; [reflexivity|intros ? ?; discriminate|eapply ZPure; eapply PVarG; reflexivity|split; discriminate|reflexivity]|];
                           eapply ZBLast; eapply ZSAssign; [discriminate|reflexivity|eapply ZPure; eapply PBin; [eapply PVarG; reflexivity|eapply PNum|reflexivity]|split; discriminate]|].
      eapply ZWhileStop. eapply ZBLast; eapply ZSExprV; eapply ZPure; eapply PBin; [eapply PVarG; reflexivity|eapply PNum|reflexivity]. }
  reflexivity.
Qed.
(* with uiNamespace do { x = 5 }; str ((uiNamespace getVariable "x") * 2) == "10"  yields true: the assignment inside with-do and
   getVariable use one storage, and the operators mean what the reference semantics says *)
Definition ex_ns_prog : list stmt :=
  [SExpr (EBinary "do" (EUnary "with" (ENular "uiNamespace")) (ECode [SAssign "x" (ENum 5)]));
   SExpr (EBinary "==" (EUnary "str" (EBinary "*" (EBinary "getVariable" (ENular "uiNamespace") (EStr "x")) (ENum 2))) (EStr "10"))].
Example namespace_inhabited : exists s', zprog init_state RNone ex_ns_prog (RBool true) s' /\ rns_get s' "uiNamespace" "x" = Some (RNum 5).
Proof.
  eexists. split.
  { eapply ZPCons.
    - eapply ZSExprV. change RNil with (val_of (BNorm RNil)).
      eapply ZWithDo; [reflexivity|eapply ZWithVal; [reflexivity|intros ? ?; discriminate|eapply ZNsNular; reflexivity]|eapply ZCode|].
      eapply ZBLast. eapply ZSAssign; [discriminate|reflexivity|eapply ZPure; eapply PNum|split; discriminate].
    - eapply ZPLast. eapply ZSExprV.
      eapply ZBin.
      { eapply ZUn; [intros ? ?; discriminate| |].
        { eapply ZBin.
          { eapply ZGetVar; [reflexivity|eapply ZNsNular; reflexivity|eapply ZPure; eapply PStr|reflexivity|discriminate]. }
          { eapply ZPure; eapply PNum. }
          reflexivity. }
        reflexivity. }
      { eapply ZPure; eapply PStr. }
      reflexivity. }
  reflexivity.
Qed.

(* ---- try {..} catch {..} and throw (VM/SimThrowOps.v, relation zthrow of VM/SimExit.v).  A block is LEFT BY A THROW when, after
   statements that run normally, it reaches `throw v`, `if c throw v`, or a scope construct standing as a statement - call {..},
   if-then(-else), a try-catch whose own handler throws - whose block is left by a throw; try-catch is a constructor of the
   expression relation with the two outcomes "the block ran to its end / was left by exitWith" and "the block was left by a
   throw, the handler ran".  Reference side: the block evaluates to OThrow with the state at the throw (the scopes in between
   closed).  Machine side: in any chain of frames in which the innermost handler frame is ft (the frames above it carry none),
   the machine reaches the state in which ft runs its handler from position 0 with _exception bound, every frame above it is gone,
   the reference state Matches, and what lies on the operand stack above ft's base are nils only (throw_any pops frames without
   clearing their parts of the stack; at statement level these hold nothing else, which is what `under` / Fresh now say).
   A loop standing as a statement one of whose rounds is left by a throw is such a statement too (ZTLoop, section LEAVING A LOOP below).
   A switch whose chosen block is left by a throw likewise (ZLSwitchThrow).  Not covered: a throw inside an operand, or past the last handler. *)
Theorem C02_ref_runs_throw : forall s reg b x s', zthrow s reg b x s' ->
  exists f0, forall f, f0 <= f -> eval_block f s b reg = (OThrow x, s').
Proof. exact (proj1 (proj2 (proj2 (proj2 (proj2 (proj2 (proj2 (proj2 ref_runs_z)))))))). Qed.
Print Assumptions C02_ref_runs_throw.
Theorem C02_vm_runs_throw : forall s reg b x s', zthrow s reg b x s' ->
  forall r c f restf below pre inner ft rest h jn below_t,
    AtM s reg r c f restf below -> Fresh c below ->
    f_code f = pre ++ compile_block b -> f_pos f = length pre ->
    f :: restf = inner ++ ft :: rest -> Forall (fun m => f_err m = None) inner -> f_err ft = Some (ECatch h) ->
    below = jn ++ below_t -> under jn -> length below_t = f_base ft ->
    exists r' c' rest' ft0, Steps r r' /\ Forall2 kept rest rest' /\ moved ft ft0 /\
      Good r' c' /\ quirks r' = ([], 0) /\ c_frames c' = handler_frame ft0 h (cv x) :: rest' /\
      Match (set_top_vars (drop_scopes (length inner) s') [("_exception", x)]) r' (handler_frame ft0 h (cv x) :: rest') /\
      exists jn', c_values c' = VNil :: jn' ++ below_t /\ under jn'.
Proof. exact (proj1 (proj2 (proj2 (proj2 (proj2 (proj2 (proj2 (proj2 vm_runs_z)))))))). Qed.
Print Assumptions C02_vm_runs_throw.
(* r = try { diag_log "a"; if (true) then { throw "boom" }; diag_log "dead"; 1 } catch { diag_log _exception; _exception + "!" }; r
   yields "boom!", logs a then boom, and nothing behind the throw runs *)
Definition ex_try_prog : list stmt :=
  [SAssign "r" (EBinary "catch"
     (EUnary "try" (ECode [SExpr (EUnary "diag_log" (EStr "a"));
                           SExpr (EBinary "then" (EUnary "if" (EBool true)) (ECode [SExpr (EUnary "throw" (EStr "boom"))]));
                           SExpr (EUnary "diag_log" (EStr "dead")); SExpr (ENum 1)]))
     (ECode [SExpr (EUnary "diag_log" (EVar "_exception")); SExpr (EBinary "+" (EVar "_exception") (EStr "!"))]));
   SExpr (EVar "r")].
Example try_inhabited : exists s', zprog init_state RNone ex_try_prog (RStr "boom!") s' /\ st_trace s' = ["boom"; "a"].
Proof.
  eexists. split.
  { eapply ZPCons.
    - eapply ZSAssign.
      { discriminate. } { reflexivity. }
      { eapply ZCatchThrow; [reflexivity|eapply ZTryVal; [reflexivity|intros ? ?; discriminate|eapply ZCode]|eapply ZCode| |].
        - eapply ZTCons.
          + eapply ZSExprV. eapply ZDiag; [reflexivity|intros ? ?; discriminate|eapply ZPure; eapply PStr|split; discriminate|reflexivity].
          + eapply ZTThen; [reflexivity|eapply ZIf; [reflexivity|intros ? ?; discriminate|eapply ZPure; eapply PBool]|eapply ZCode|].
            eapply ZTThrow; [reflexivity|intros ? ?; discriminate|eapply ZPure; eapply PStr|split; discriminate].
        - eapply ZBCons.
          + eapply ZSExprV. eapply ZDiag; [reflexivity|intros ? ?; discriminate|eapply ZPure; eapply PVarL; reflexivity|split; discriminate|reflexivity].
          + eapply ZBLast. eapply ZSExprV. eapply ZPure. eapply PBin; [eapply PVarL; reflexivity|eapply PStr|reflexivity]. }
      { split; discriminate. }
    - eapply ZPLast. eapply ZSExprV. eapply ZPure. eapply PVarG; reflexivity. }
  reflexivity.
Qed.
(* try { try { throw "a" } catch { throw (_exception + "b"); diag_log "dead" }; diag_log "dead" } catch { _exception + "c" }
   yields "abc": a throw out of a handler goes to the next handler outwards *)
Definition ex_rethrow : expr :=
  EBinary "catch"
    (EUnary "try" (ECode [SExpr (EBinary "catch" (EUnary "try" (ECode [SExpr (EUnary "throw" (EStr "a"))]))
                                                (ECode [SExpr (EUnary "throw" (EBinary "+" (EVar "_exception") (EStr "b")));
                                                        SExpr (EUnary "diag_log" (EStr "dead"))]));
                          SExpr (EUnary "diag_log" (EStr "dead"))]))
    (ECode [SExpr (EBinary "+" (EVar "_exception") (EStr "c"))]).
Example rethrow_inhabited : exists s', zev init_state ex_rethrow (RStr "abc") s' /\ st_trace s' = [].
Proof.
  eexists. split.
  { change (RStr "abc") with (val_of (BNorm (RStr "abc"))).
    eapply ZCatchThrow; [reflexivity|eapply ZTryVal; [reflexivity|intros ? ?; discriminate|eapply ZCode]|eapply ZCode| |].
    - eapply ZTHandler; [reflexivity|eapply ZTryVal; [reflexivity|intros ? ?; discriminate|eapply ZCode]|eapply ZCode| |].
      + eapply ZTThrow; [reflexivity|intros ? ?; discriminate|eapply ZPure; eapply PStr|split; discriminate].
      + eapply ZTThrow.
        { reflexivity. } { intros ? ?; discriminate. }
        { eapply ZPure. eapply PBin; [eapply PVarL; reflexivity|eapply PStr|reflexivity]. }
        { split; discriminate. }
    - eapply ZBLast. eapply ZSExprV. eapply ZPure. eapply PBin; [eapply PVarL; reflexivity|eapply PStr|reflexivity]. }
  reflexivity.
Qed.
(* ... and the program above on a concrete machine: C02_program_runs / C02_program_trace apply to it *)
Definition ex_running_try : rt :=
  let r := load (create_rt [] 0 0 0 150) (compile_block ex_try_prog) in
  rt_with r (r_ctxs r) (Some 0) StRunning false false true false [] [] (r_nss r) (r_clock r) (r_timestamp r) (r_next_id r).
Example try_program_premises :
  let c := push_frame (new_context 0 false) (mk_frame default_ns (compile_block ex_try_prog) None None []) in
  let f := mk_frame default_ns (compile_block ex_try_prog) None None [] in
  AtM init_state RNone ex_running_try c f [] [] /\ f_code f = compile_block ex_try_prog /\ f_pos f = 0 /\ f_exit f = None.
Proof.
  cbv zeta. split; [|repeat split].
  split; [|split; [reflexivity|exists []; split; reflexivity]].
  split; [unfold Good; split; [reflexivity|cbn; auto 10]|]. split; [reflexivity|]. split.
  - split; [|reflexivity]. cbn. constructor; [|constructor]. split; [intros k; reflexivity|split; [reflexivity|split; reflexivity]].
  - split; [cbn; lia|reflexivity].
Qed.

(* ---- scopeName / breakOut (VM/SimBreakOps.v, relation zbreak of VM/SimExit.v).  Scope names are part of the matched state
   (frame_match: the frame's name is the scope's).  `scopeName "t"` is a constructor of the expression relation (a scope is named
   once); a block is LEFT BY breakOut "t" when, after statements that run normally, it reaches `breakOut "t"`, `v breakOut "t"`, or a
   scope construct standing as a statement - call {..}, if-then(-else) - whose own scope is not named t and whose block is left that
   way; call / if-then / if-then-else whose own scope IS named t yield the value handed to breakOut (nil for the unary form).
   Machine side: where the innermost scope named t is k scopes up (judged on the reference state at the breakOut), the machine pops
   k+1 frames, each one's part of the operand stack with it, and continues in the frame below with the value on what lay below the
   named frame - an early exit leaves exactly the targeted scope.  While proving this the frame of a loop's next round turned out
   to keep its name (repaired, see DESIGN.md).  A loop standing as a statement one of whose rounds is left by breakOut to a name outside
   the loop is such a statement too (ZKLoop, section LEAVING A LOOP below).  Not covered: breakOut to a name no scope carries, to "". *)
Theorem C02_ref_runs_breakout : forall s reg b t v s', zbreak s reg b t v s' ->
  exists f0, forall f, f0 <= f -> eval_block f s b reg = (OBreak t v, s').
Proof. exact (proj1 (proj2 (proj2 (proj2 (proj2 (proj2 (proj2 (proj2 (proj2 ref_runs_z))))))))). Qed.
Print Assumptions C02_ref_runs_breakout.
Theorem C02_vm_runs_breakout : forall s reg b t v s', zbreak s reg b t v s' ->
  forall r c f restf below pre k top fn fc rest jn below_n,
    AtM s reg r c f restf below -> Fresh c below ->
    f_code f = pre ++ compile_block b -> f_pos f = length pre ->
    find_name t (st_scopes s') 0 = Some k ->
    f :: restf = top ++ fn :: fc :: rest -> length top = k ->
    Forall (fun m => f_base fn <= f_base m) top -> f_base fc <= f_base fn ->
    below = jn ++ below_n -> length below_n = f_base fn ->
    exists r' c' fc' rest', Steps r r' /\ Mach (drop_scopes (S k) s') r' c' fc' rest' /\ c_values c' = cv v :: below_n /\
      kept fc fc' /\ Forall2 kept rest rest'.
Proof. exact (proj1 (proj2 (proj2 (proj2 (proj2 (proj2 (proj2 (proj2 (proj2 vm_runs_z))))))))). Qed.
Print Assumptions C02_vm_runs_breakout.
(* r = call { scopeName "out"; diag_log "a"; if (true) then { call { diag_log "b"; "v" breakOut "out" }; diag_log "dead" }; diag_log "dead"; 1 }; r
   yields "v", logs a then b: two scopes that do not carry the name are passed, the named one ends with the value *)
Definition ex_break_prog : list stmt :=
  [SAssign "r" (EUnary "call" (ECode
     [SExpr (EUnary "scopeName" (EStr "out"));
      SExpr (EUnary "diag_log" (EStr "a"));
      SExpr (EBinary "then" (EUnary "if" (EBool true))
               (ECode [SExpr (EUnary "call" (ECode [SExpr (EUnary "diag_log" (EStr "b")); SExpr (EBinary "breakOut" (EStr "v") (EStr "out"))]));
                       SExpr (EUnary "diag_log" (EStr "dead"))]));
      SExpr (EUnary "diag_log" (EStr "dead")); SExpr (ENum 1)]));
   SExpr (EVar "r")].
Example breakout_inhabited : exists s', zprog init_state RNone ex_break_prog (RStr "v") s' /\ st_trace s' = ["b"; "a"].
Proof.
  eexists. split.
  { eapply ZPCons.
    - eapply ZSAssign.
      { discriminate. } { reflexivity. }
      { eapply ZCallBreak; [reflexivity|intros ? ?; discriminate|eapply ZCode| |].
        - eapply ZKCons.
          + eapply ZSExprV. eapply ZScopeName; [reflexivity|intros ? ?; discriminate|eapply ZPure; eapply PStr|reflexivity|reflexivity].
          + eapply ZKCons.
            * eapply ZSExprV. eapply ZDiag; [reflexivity|intros ? ?; discriminate|eapply ZPure; eapply PStr|split; discriminate|reflexivity].
            * eapply ZKThen; [reflexivity|eapply ZIf; [reflexivity|intros ? ?; discriminate|eapply ZPure; eapply PBool]|eapply ZCode| |].
              { eapply ZKCallU; [reflexivity|intros ? ?; discriminate|eapply ZCode| |].
                - eapply ZKCons.
                  + eapply ZSExprV. eapply ZDiag; [reflexivity|intros ? ?; discriminate|eapply ZPure; eapply PStr|split; discriminate|reflexivity].
                  + eapply ZKBreakV; [reflexivity|eapply ZPure; eapply PStr|split; discriminate|eapply ZPure; eapply PStr|discriminate].
                - discriminate. }
              { discriminate. }
        - reflexivity. }
      { split; discriminate. }
    - eapply ZPLast. eapply ZSExprV. eapply ZPure. eapply PVarG; reflexivity. }
  reflexivity.
Qed.


(* ---- LEAVING A LOOP by a throw or by breakOut (relations zloopleave / zileave / zfleave / zwleave of VM/SimExit.v, constructors ZTLoop
   of zthrow and ZKLoop of zbreak).  The body of forEach / count / apply / select / findIf, the body of for, the condition and the body
   of while may be left by a throw that a try-catch OUTSIDE the loop takes, and by breakOut to a scope name OUTSIDE the loop: after
   rounds that run normally, one round is left that way (zthrow / zbreak of the round's block; for breakOut the scope of the round
   does not carry the name).  A loop standing as a statement and left that way makes its block a block left by a throw / by breakOut
   (ZTLoop, ZKLoop) - so C02_vm_runs_throw / C02_vm_runs_breakout / C02_ref_runs_throw / C02_ref_runs_breakout above now speak about
   such blocks too, and try {.. loop ..} catch {..}, call {.. scopeName "o"; loop ..} are expressions of the relation zev, nestable
   like every other.  `abr` = AThrow x | ABreak t v is the kind of exit, `oa` the outcome of the reference semantics that goes with it.
   Machine side, in the shape of C02_vm_runs_throw / C02_vm_runs_breakout: from the state in which the running frame f stands in
   front of the loop's operands, the machine evaluates the operands, pushes the loop frame, goes round (each pass that goes round
   also executes the first instruction of the next round), and reaches the state in which the handler's frame runs the handler from
   position 0 with _exception bound / the frame below the named one goes on with the value; the loop frame and everything above
   the handler's / below the named frame's base on the operand stack are gone (only the nils of abandoned scopes remain above the
   handler's base), and the reference state - the scopes of the round, of the loop and of everything in between closed - Matches. *)
Theorem C02_ref_runs_loop_exit : forall s e a s', zloopleave s e a s' ->
  exists f0, forall f, f0 <= f -> eval f s e = (oa a, s').
Proof. exact (proj1 (proj2 (proj2 (proj2 (proj2 (proj2 (proj2 (proj2 (proj2 (proj2 ref_runs_z)))))))))). Qed.
Print Assumptions C02_ref_runs_loop_exit.
Theorem C02_vm_runs_loop_throw : forall s e x s', zloopleave s e (AThrow x) s' ->
  forall reg r c f restf below pre post inner ft rest h jn below_t,
    AtM s reg r c f restf below -> Fresh c below ->
    f_code f = pre ++ compile_expr e ++ post -> f_pos f = length pre ->
    f :: restf = inner ++ ft :: rest -> Forall (fun m => f_err m = None) inner -> f_err ft = Some (ECatch h) ->
    below = jn ++ below_t -> under jn -> length below_t = f_base ft ->
    exists r' c' rest' ft0, Steps r r' /\ Forall2 kept rest rest' /\ moved ft ft0 /\
      Good r' c' /\ quirks r' = ([], 0) /\ c_frames c' = handler_frame ft0 h (cv x) :: rest' /\
      Match (set_top_vars (drop_scopes (length inner) s') [("_exception", x)]) r' (handler_frame ft0 h (cv x) :: rest') /\
      exists jn', c_values c' = VNil :: jn' ++ below_t /\ under jn'.
Proof.
  exact (fun s e x s' H reg r c f restf below pre post inner ft rest h jn below_t A FR EC EP =>
           expr_leaves_atm _ _ _ _ (proj1 (proj2 (proj2 (proj2 (proj2 (proj2 (proj2 (proj2 (proj2 (proj2 vm_runs_z))))))))) s e (AThrow x) s' H)
             reg r c f restf below pre post A FR EC EP inner ft rest h jn below_t).
Qed.
Print Assumptions C02_vm_runs_loop_throw.
Theorem C02_vm_runs_loop_breakout : forall s e t v s', zloopleave s e (ABreak t v) s' ->
  forall reg r c f restf below pre post k top fn fc rest jn below_n,
    AtM s reg r c f restf below -> Fresh c below ->
    f_code f = pre ++ compile_expr e ++ post -> f_pos f = length pre ->
    find_name t (st_scopes s') 0 = Some k ->
    f :: restf = top ++ fn :: fc :: rest -> length top = k ->
    Forall (fun m => f_base fn <= f_base m) top -> f_base fc <= f_base fn ->
    below = jn ++ below_n -> length below_n = f_base fn ->
    exists r' c' fc' rest', Steps r r' /\ Mach (drop_scopes (S k) s') r' c' fc' rest' /\ c_values c' = cv v :: below_n /\
      kept fc fc' /\ Forall2 kept rest rest'.
Proof.
  exact (fun s e t v s' H reg r c f restf below pre post k top fn fc rest jn below_n A FR EC EP =>
           expr_leaves_atm _ _ _ _ (proj1 (proj2 (proj2 (proj2 (proj2 (proj2 (proj2 (proj2 (proj2 (proj2 vm_runs_z))))))))) s e (ABreak t v) s' H)
             reg r c f restf below pre post A FR EC EP k top fn fc rest jn below_n).
Qed.
Print Assumptions C02_vm_runs_loop_breakout.

(* the same at the level of the loop frame, per kind of loop.  LeavesL a s' r f restf below (VM/SimExit.v) is the conclusion of the two
   theorems above read for a LOOP frame f at the start of a round: the handler's frame / the named frame lies in restf, s' has the scope
   of the loop closed as well, and the run is not empty (r' <> r).  C02_loop_frame_throw / C02_loop_frame_breakout spell it out. *)
Theorem C02_loop_frame_throw : forall x s' r f restf below, LeavesL (AThrow x) s' r f restf below ->
  forall inner ft rest h jn below_t,
    restf = inner ++ ft :: rest -> f_err f = None -> Forall (fun m => f_err m = None) inner -> f_err ft = Some (ECatch h) ->
    below = jn ++ below_t -> under jn -> length below_t = f_base ft ->
    exists r' c' rest' ft0, Steps r r' /\ r' <> r /\ Forall2 kept rest rest' /\ moved ft ft0 /\
      Good r' c' /\ quirks r' = ([], 0) /\ c_frames c' = handler_frame ft0 h (cv x) :: rest' /\
      Match (set_top_vars (drop_scopes (length inner) s') [("_exception", x)]) r' (handler_frame ft0 h (cv x) :: rest') /\
      exists jn', c_values c' = VNil :: jn' ++ below_t /\ under jn'.
Proof. exact (fun x s' r f restf below H => H). Qed.
Print Assumptions C02_loop_frame_throw.
Theorem C02_loop_frame_breakout : forall t v s' r f restf below, LeavesL (ABreak t v) s' r f restf below ->
  forall k top fn fc rest jn below_n,
    find_name t (st_scopes s') 0 = Some k ->
    restf = top ++ fn :: fc :: rest -> length top = k ->
    f_base fn <= f_base f -> Forall (fun m => f_base fn <= f_base m) top -> f_base fc <= f_base fn ->
    below = jn ++ below_n -> length below_n = f_base fn ->
    exists r' c' fc' rest', Steps r r' /\ r' <> r /\ Mach (drop_scopes (S k) s') r' c' fc' rest' /\ c_values c' = cv v :: below_n /\
      kept fc fc' /\ Forall2 kept rest rest'.
Proof. exact (fun t v s' r f restf below H => H). Qed.
Print Assumptions C02_loop_frame_breakout.

Theorem C02_ref_runs_loops_exit : forall k s arr i body acc a s', zileave k s arr i body acc a s' ->
  exists f0, forall f, f0 <= f -> forall kk, length arr < kk ->
    iterate_f f kk s arr i body (kwith k) acc (kstep k) = (oa a, s').
Proof. exact (proj1 (proj2 (proj2 (proj2 (proj2 (proj2 (proj2 (proj2 (proj2 (proj2 (proj2 ref_runs_z))))))))))). Qed.
Print Assumptions C02_ref_runs_loops_exit.
Theorem C02_vm_runs_loops_exit : forall k s x rest0 i body acc a s', zileave k s (x :: rest0) i body acc a s' ->
  forall r c f fc frest below allarr b,
    AtM (enter s (kvars k i x)) (match i with O => RNil | _ => RNone end) r c f (fc :: frest) below -> Fresh c below ->
    f_code f = compile_block body -> f_pos f = 0 -> f_exit f = Some b -> kb k allarr i acc b -> f_die f = false ->
    skipn i allarr = x :: rest0 -> leaf_first body -> f_ns f = f_ns fc -> f_base fc <= length below ->
    LeavesL a s' r f (fc :: frest) below.
Proof.
  exact (fun k s x rest0 i body acc a s' H =>
           proj1 (proj2 (proj2 (proj2 (proj2 (proj2 (proj2 (proj2 (proj2 (proj2 (proj2 vm_runs_z)))))))))) k s (x :: rest0) i body acc a s' H).
Qed.
Print Assumptions C02_vm_runs_loops_exit.
Theorem C02_ref_runs_for_exit : forall var to st s x first body a s', zfleave var to st s x first body a s' ->
  exists f0 k0, forall f, f0 <= f -> forall k, k0 <= k -> for_loop_f f var to st body k s x first = (oa a, s').
Proof. exact (proj1 (proj2 (proj2 (proj2 (proj2 (proj2 (proj2 (proj2 (proj2 (proj2 (proj2 (proj2 ref_runs_z)))))))))))). Qed.
Print Assumptions C02_ref_runs_for_exit.
Theorem C02_vm_runs_for_exit : forall var to st s x first body a s', zfleave var to st s x first body a s' ->
  forall r c f fc frest below,
    AtM (enter s [(lower var, RNum x)]) (if first then RNil else RNone) r c f (fc :: frest) below -> Fresh c below ->
    f_code f = compile_block body -> f_pos f = 0 -> f_exit f = Some (BFor var to st) -> f_die f = false ->
    leaf_first body -> f_ns f = f_ns fc -> f_base fc <= length below ->
    LeavesL a s' r f (fc :: frest) below.
Proof. exact (proj1 (proj2 (proj2 (proj2 (proj2 (proj2 (proj2 (proj2 (proj2 (proj2 (proj2 (proj2 vm_runs_z)))))))))))). Qed.
Print Assumptions C02_vm_runs_for_exit.
Theorem C02_ref_runs_while_exit : forall cond body s first a s', zwleave cond body s first a s' ->
  exists f0 k0, forall f, f0 <= f -> forall k, k0 <= k -> forall n, first = Nat.eqb n 0 ->
    while_loop_f f cond body k s n = (oa a, s').
Proof. exact (proj1 (proj2 (proj2 (proj2 (proj2 (proj2 (proj2 (proj2 (proj2 (proj2 (proj2 (proj2 (proj2 ref_runs_z))))))))))))). Qed.
Print Assumptions C02_ref_runs_while_exit.
Theorem C02_vm_runs_while_exit : forall cond body s first a s', zwleave cond body s first a s' ->
  forall r c f fc frest below loops,
    AtM (enter s []) (if first then RNil else RNone) r c f (fc :: frest) below -> Fresh c below ->
    f_code f = compile_block cond -> f_pos f = 0 ->
    f_exit f = Some (BWhile loops WCond (compile_block cond) (compile_block body)) -> f_die f = false ->
    leaf_first cond -> leaf_first body -> f_ns f = f_ns fc -> f_base fc <= length below ->
    LeavesL a s' r f (fc :: frest) below.
Proof. exact (proj1 (proj2 (proj2 (proj2 (proj2 (proj2 (proj2 (proj2 (proj2 (proj2 (proj2 (proj2 (proj2 vm_runs_z))))))))))))). Qed.
Print Assumptions C02_vm_runs_while_exit.

(* derivations.  (1) try { { diag_log _x; if (_x > 1) then { throw _x } } forEach [1, 2, 3]; diag_log "dead" } catch { _exception }
   yields 2 and logs 1 then 2: the first round runs normally, the second is left by the throw, the third does not run, nothing behind
   the loop runs, the handler sees the thrown value *)
Definition ex_loop_body_throw : list stmt :=
  [SExpr (EUnary "diag_log" (EVar "_x"));
   SExpr (EBinary "then" (EUnary "if" (EBinary ">" (EVar "_x") (ENum 1))) (ECode [SExpr (EUnary "throw" (EVar "_x"))]))].
Definition ex_loop_throw : expr :=
  EBinary "catch"
    (EUnary "try" (ECode [SExpr (EBinary "forEach" (ECode ex_loop_body_throw) (EArr [ENum 1; ENum 2; ENum 3]));
                          SExpr (EUnary "diag_log" (EStr "dead"))]))
    (ECode [SExpr (EVar "_exception")]).
Ltac foreach_rounds_throw :=
  eapply ZILCons;
  [ eapply ZBCons;
    [ eapply ZSExprV; eapply ZDiag; [reflexivity|intros ? ?; discriminate|eapply ZPure; eapply PVarL; reflexivity|split; discriminate|reflexivity]
    | eapply ZBLast; eapply ZSExprV; eapply ZThenSkip; [reflexivity| |eapply ZCode];
      eapply ZIf; [reflexivity|intros ? ?; discriminate|]; eapply ZPure; eapply PBin; [eapply PVarL; reflexivity|eapply PNum|reflexivity] ]
  | reflexivity
  | exact I
  | eapply ZILThrow; eapply ZTCons;
    [ eapply ZSExprV; eapply ZDiag; [reflexivity|intros ? ?; discriminate|eapply ZPure; eapply PVarL; reflexivity|split; discriminate|reflexivity]
    | eapply ZTThen; [reflexivity| |eapply ZCode|];
      [ eapply ZIf; [reflexivity|intros ? ?; discriminate|]; eapply ZPure; eapply PBin; [eapply PVarL; reflexivity|eapply PNum|reflexivity]
      | eapply ZTThrow; [reflexivity|intros ? ?; discriminate|eapply ZPure; eapply PVarL; reflexivity|split; discriminate] ] ] ].
Example foreach_rounds_throw_inhabited : exists s',
  zileave KForEach (enter init_state []) [RNum 1; RNum 2; RNum 3] 0 ex_loop_body_throw RNil (AThrow (RNum 2)) s' /\ st_trace s' = ["2"; "1"].
Proof. eexists. split; [foreach_rounds_throw|reflexivity]. Qed.
Example loop_throw_inhabited : exists v s', zev init_state ex_loop_throw v s' /\ v = RNum 2 /\ st_trace s' = ["2"; "1"].
Proof.
  eexists _, _. split.
  { eapply ZCatchThrow; [reflexivity|eapply ZTryVal; [reflexivity|intros ? ?; discriminate|eapply ZCode]|eapply ZCode| |].
    - eapply ZTLoop. eapply (ZLLoopCA _ _ _ _ _ _ _ KForEach); [reflexivity|reflexivity| |eapply ZCode| |].
      + eexists _, _. split; [reflexivity|]. right. eexists. reflexivity.
      + eapply ZPure. eapply PArr. eapply PCons; [eapply PNum|]. eapply PCons; [eapply PNum|]. eapply PCons; [eapply PNum|eapply PNil].
      + foreach_rounds_throw.
    - eapply ZBLast. eapply ZSExprV. eapply ZPure. eapply PVarL; reflexivity. }
  split; reflexivity.
Qed.

(* (2) r = call { scopeName "o"; { if (_x > 1) then { 7 breakOut "o" } } forEach [1, 2, 3]; diag_log "dead"; 1 }; r   yields 7: the
   second round breaks out of the if-scope, the scope of the round, the loop and the scope named o *)
Definition ex_loop_body_break : list stmt :=
  [SExpr (EBinary "then" (EUnary "if" (EBinary ">" (EVar "_x") (ENum 1))) (ECode [SExpr (EBinary "breakOut" (ENum 7) (EStr "o"))]))].
Definition ex_loop_break_prog : list stmt :=
  [SAssign "r" (EUnary "call" (ECode
     [SExpr (EUnary "scopeName" (EStr "o"));
      SExpr (EBinary "forEach" (ECode ex_loop_body_break) (EArr [ENum 1; ENum 2; ENum 3]));
      SExpr (EUnary "diag_log" (EStr "dead")); SExpr (ENum 1)]));
   SExpr (EVar "r")].
Example loop_breakout_inhabited : exists s', zprog init_state RNone ex_loop_break_prog (RNum 7) s' /\ st_trace s' = [].
Proof.
  eexists. split.
  { eapply ZPCons.
    - eapply ZSAssign.
      { discriminate. } { reflexivity. }
      { eapply ZCallBreak; [reflexivity|intros ? ?; discriminate|eapply ZCode| |].
        - eapply ZKCons.
          + eapply ZSExprV. eapply ZScopeName; [reflexivity|intros ? ?; discriminate|eapply ZPure; eapply PStr|reflexivity|reflexivity].
          + eapply ZKLoop.
            { eapply (ZLLoopCA _ _ _ _ _ _ _ KForEach); [reflexivity|reflexivity| |eapply ZCode| |].
              * eexists _, _. split; [reflexivity|]. right. eexists. reflexivity.
              * eapply ZPure. eapply PArr. eapply PCons; [eapply PNum|]. eapply PCons; [eapply PNum|]. eapply PCons; [eapply PNum|eapply PNil].
              * eapply ZILCons.
                -- eapply ZBLast. eapply ZSExprV. eapply ZThenSkip; [reflexivity| |eapply ZCode].
                   eapply ZIf; [reflexivity|intros ? ?; discriminate|]. eapply ZPure. eapply PBin; [eapply PVarL; reflexivity|eapply PNum|reflexivity].
                -- reflexivity.
                -- exact I.
                -- eapply ZILBreak.
                   { eapply ZKThen; [reflexivity| |eapply ZCode| |].
                     - eapply ZIf; [reflexivity|intros ? ?; discriminate|]. eapply ZPure. eapply PBin; [eapply PVarL; reflexivity|eapply PNum|reflexivity].
                     - eapply ZKBreakV; [reflexivity|eapply ZPure; eapply PNum|split; discriminate|eapply ZPure; eapply PStr|discriminate].
                     - discriminate. }
                   { discriminate. } }
        - reflexivity. }
      { split; discriminate. }
    - eapply ZPLast. eapply ZSExprV. eapply ZPure. eapply PVarG; reflexivity. }
  reflexivity.
Qed.

(* (3) for "_i" from 1 to 5 do { if (_i > 1) then { throw _i } }: the second round is left by the throw *)
Definition ex_for_body_throw : list stmt :=
  [SExpr (EBinary "then" (EUnary "if" (EBinary ">" (EVar "_i") (ENum 1))) (ECode [SExpr (EUnary "throw" (EVar "_i"))]))].
Ltac for_rounds_throw :=
  eapply ZFLRound;
  [ eapply ZBLast; eapply ZSExprV; eapply ZThenSkip; [reflexivity| |eapply ZCode];
    eapply ZIf; [reflexivity|intros ? ?; discriminate|]; eapply ZPure; eapply PBin; [eapply PVarL; reflexivity|eapply PNum|reflexivity]
  | reflexivity | reflexivity | reflexivity
  | eapply ZFLThrow; eapply ZTThen; [reflexivity| |eapply ZCode|];
    [ eapply ZIf; [reflexivity|intros ? ?; discriminate|]; eapply ZPure; eapply PBin; [eapply PVarL; reflexivity|eapply PNum|reflexivity]
    | eapply ZTThrow; [reflexivity|intros ? ?; discriminate|eapply ZPure; eapply PVarL; reflexivity|split; discriminate] ] ].
Example for_rounds_throw_inhabited : exists s', zfleave "_i" 5 1 (enter init_state []) 1 true ex_for_body_throw (AThrow (RNum 2)) s'.
Proof. eexists. for_rounds_throw. Qed.
Definition ex_for_throw : expr :=
  EBinary "catch"
    (EUnary "try" (ECode [SExpr (EBinary "do" (EBinary "to" (EBinary "from" (EUnary "for" (EStr "_i")) (ENum 1)) (ENum 5)) (ECode ex_for_body_throw))]))
    (ECode [SExpr (EBinary "+" (EVar "_exception") (ENum 40))]).
Example for_throw_inhabited : exists v s', zev init_state ex_for_throw v s' /\ v = RNum 42.
Proof.
  eexists _, _. split.
  { eapply ZCatchThrow; [reflexivity|eapply ZTryVal; [reflexivity|intros ? ?; discriminate|eapply ZCode]|eapply ZCode| |].
    - eapply ZTLoop. eapply ZLFor; [reflexivity| |eapply ZCode| | |].
      + eapply ZForSet; [| |eapply ZPure; eapply PNum].
        2: { eapply ZForSet; [| |eapply ZPure; eapply PNum].
             2: { eapply ZForVar; [reflexivity|intros ? ?; discriminate|eapply ZPure; eapply PStr]. }
             reflexivity. }
        reflexivity.
      + reflexivity.
      + eexists _, _. split; [reflexivity|]. right. eexists. reflexivity.
      + for_rounds_throw.
    - eapply ZBLast. eapply ZSExprV. eapply ZPure. eapply PBin; [eapply PVarL; reflexivity|eapply PNum|reflexivity]. }
  reflexivity.
Qed.

(* (4) i = 0; while { i < 5 } do { i = i + 1; if (i > 1) then { i breakOut "o" } }: the body of the second round is left by breakOut *)
Definition ex_while_cond : list stmt := [SExpr (EBinary "<" (EVar "i") (ENum 5))].
Definition ex_while_body_break : list stmt :=
  [SAssign "i" (EBinary "+" (EVar "i") (ENum 1));
   SExpr (EBinary "then" (EUnary "if" (EBinary ">" (EVar "i") (ENum 1))) (ECode [SExpr (EBinary "breakOut" (EVar "i") (EStr "o"))]))].
Example while_rounds_break_inhabited : exists s0 s', glob_of s0 "i" = Some (RNum 0) /\
  zwleave ex_while_cond ex_while_body_break s0 true (ABreak "o" (RNum 2)) s' /\ glob_of s' "i" = Some (RNum 2).
Proof.
  exists (rns_set init_state default_ns "i" (RNum 0)). eexists. split; [reflexivity|]. split.
  { eapply ZWLRound.
    - eapply ZBLast. eapply ZSExprV. eapply ZPure. eapply PBin; [eapply PVarG; reflexivity|eapply PNum|reflexivity].
    - eapply ZBCons.
      + eapply ZSAssign; [discriminate|reflexivity|eapply ZPure; eapply PBin; [eapply PVarG; reflexivity|eapply PNum|reflexivity]|split; discriminate].
      + eapply ZBLast. eapply ZSExprV. eapply ZThenSkip; [reflexivity| |eapply ZCode].
        eapply ZIf; [reflexivity|intros ? ?; discriminate|]. eapply ZPure. eapply PBin; [eapply PVarG; reflexivity|eapply PNum|reflexivity].
    - eapply ZWLBreakBody.
      + eapply ZBLast. eapply ZSExprV. eapply ZPure. eapply PBin; [eapply PVarG; reflexivity|eapply PNum|reflexivity].
      + eapply ZKCons.
        * eapply ZSAssign; [discriminate|reflexivity|eapply ZPure; eapply PBin; [eapply PVarG; reflexivity|eapply PNum|reflexivity]|split; discriminate].
        * eapply ZKThen; [reflexivity| |eapply ZCode| |].
          -- eapply ZIf; [reflexivity|intros ? ?; discriminate|]. eapply ZPure. eapply PBin; [eapply PVarG; reflexivity|eapply PNum|reflexivity].
          -- eapply ZKBreakV; [reflexivity|eapply ZPure; eapply PVarG; reflexivity|split; discriminate|eapply ZPure; eapply PStr|discriminate].
          -- discriminate.
      + discriminate. }
  reflexivity.
Qed.

(* ... and the first two programs evaluated inside Coq on both sides: the reference semantics and the VM model (the loaded program run
   by execute_do to the end) log the same markers and yield the same value *)
Definition ex_loop_throw_prog : list stmt := [SExpr ex_loop_throw].
Example loop_exit_ref_and_vm_agree :
  run_ref 200 ex_loop_throw_prog = "OK:M<1>,M<2>,V<2>" /\
  run_final (load (create_rt [] 0 0 (100 * 100) 150) (compile_block ex_loop_throw_prog)) = "-1:0:3:60019,M<1>,3:60019,M<2>,3:60095,M<VALUE 2>," /\
  run_ref 200 ex_loop_break_prog = "OK:V<7>" /\
  run_final (load (create_rt [] 0 0 (100 * 100) 150) (compile_block ex_loop_break_prog)) = "-1:0:3:60095,M<VALUE 7>,".
Proof. repeat split; vm_compute; reflexivity. Qed.

(* (5) breakOut to the name the scope of the round itself carries:  { scopeName "l"; if (_x > 1) then { _x breakOut "l" }; 0 } forEach [1, 2, 3]
   ends the whole loop in the second round with the value 2 (constructor ZIterBreak of ziter, covered by C02_vm_runs_loops / C02_ref_runs_loops;
   ZForBreak, ZWhileBreakCond, ZWhileBreakBody are the same for for and while) *)
Definition ex_loop_own_name : expr :=
  EBinary "forEach"
    (ECode [SExpr (EUnary "scopeName" (EStr "l"));
            SExpr (EBinary "then" (EUnary "if" (EBinary ">" (EVar "_x") (ENum 1))) (ECode [SExpr (EBinary "breakOut" (EVar "_x") (EStr "l"))]));
            SExpr (ENum 0)])
    (EArr [ENum 1; ENum 2; ENum 3]).
Example loop_own_name_inhabited : exists v s', zev init_state ex_loop_own_name v s' /\ v = RNum 2.
Proof.
  eexists _, _. split.
  { eapply (ZLoopCA _ _ _ _ _ _ _ KForEach); [reflexivity|reflexivity| |eapply ZCode| |].
    - eexists _, _. split; [reflexivity|]. left. eexists. reflexivity.
    - eapply ZPure. eapply PArr. eapply PCons; [eapply PNum|]. eapply PCons; [eapply PNum|]. eapply PCons; [eapply PNum|eapply PNil].
    - eapply ZIterCons.
      + eapply ZBCons.
        * eapply ZSExprV. eapply ZScopeName; [reflexivity|intros ? ?; discriminate|eapply ZPure; eapply PStr|reflexivity|reflexivity].
        * eapply ZBCons.
          -- eapply ZSExprV. eapply ZThenSkip; [reflexivity| |eapply ZCode].
             eapply ZIf; [reflexivity|intros ? ?; discriminate|]. eapply ZPure. eapply PBin; [eapply PVarL; reflexivity|eapply PNum|reflexivity].
          -- eapply ZBLast. eapply ZSExprV. eapply ZPure. eapply PNum.
      + reflexivity.
      + exact I.
      + eapply ZIterBreak.
        * eapply ZKCons.
          -- eapply ZSExprV. eapply ZScopeName; [reflexivity|intros ? ?; discriminate|eapply ZPure; eapply PStr|reflexivity|reflexivity].
          -- eapply ZKThen; [reflexivity| |eapply ZCode| |].
             ++ eapply ZIf; [reflexivity|intros ? ?; discriminate|]. eapply ZPure. eapply PBin; [eapply PVarL; reflexivity|eapply PNum|reflexivity].
             ++ eapply ZKBreakV; [reflexivity|eapply ZPure; eapply PVarL; reflexivity|split; discriminate|eapply ZPure; eapply PStr|discriminate].
             ++ discriminate.
        * reflexivity. }
  reflexivity.
Qed.
Example loop_own_name_ref_and_vm_agree :
  run_ref 200 [SExpr ex_loop_own_name] = "OK:V<2>" /\
  run_final (load (create_rt [] 0 0 (100 * 100) 150) (compile_block [SExpr ex_loop_own_name])) = "-1:0:3:60095,M<VALUE 2>,".
Proof. split; vm_compute; reflexivity. Qed.

(* ---- switch - case - default (VM/SimSwitchOps.v; relation zswitch and the constructors ZSwitchVal / ZSwitchNone / ZSwitchRun of
   VM/SimExit.v).  The statements of a switch body - labels `case x;` (fall-through), `case x : {..}`, `default {..}`, the case values
   pure expressions - are judged against the bookkeeping of the reference semantics (RefSem.swst): the first case that matches, or
   that stands behind a matching label, wins and the rest of the body is skipped; default offers its block when nothing was chosen.
   The machine keeps that bookkeeping in the hidden variable ___switch of the switch frame - which is why the frames Match the
   reference scopes on every name but that one, and why a program's own variables must not carry it (premise `hidden` of the
   variable rules).  C02_switch_body_vm: from any statement boundary of the body the machine's hidden variable follows the
   reference bookkeeping statement by statement, and the frame ends at the end of its code - behind it when a case was chosen.
   The construct itself: with no block chosen it yields nil; otherwise the chosen block's instructions are exchanged into the
   frame and its value is the value of the construct (the block starts with a push or a variable read; a block that is left early: section EARLY EXITS OUT OF THE CHOSEN BLOCK OF A SWITCH at the end of this file). *)
Theorem C02_switch_body_ref : forall s body sw sw', zswitch s body sw sw' ->
  exists f0, forall f, f0 <= f -> eval_switch_body f s body sw = (ONormal RNil, s, sw').
Proof. exact switch_body_ref. Qed.
Print Assumptions C02_switch_body_ref.
Theorem C02_switch_body_vm : forall s body sw sw', zswitch s body sw sw' ->
  forall r c f rest below pre (first:bool), Mach s r c f rest -> length below = f_base f -> Fresh c below ->
    f_code f = pre ++ compile_block_from first body -> f_pos f = length pre -> SwInv sw f ->
    exists r' c' f', Steps r r' /\ Mach s r' c' f' rest /\ Fresh c' below /\
      (body <> [] -> exists t, c_values c' = VNil :: t ++ below) /\ (body = [] -> c_values c' = c_values c) /\
      moved f f' /\ SwInv sw' f' /\ (f_pos f' = length (f_code f') \/ f_pos f' = S (length (f_code f'))).
Proof. exact switch_body_vm. Qed.
Print Assumptions C02_switch_body_vm.
(* x = 2; r = switch x do { case 1; case 2 : { diag_log "two"; "a" }; case 2 : { "again" }; default { "d" } }; r   yields "a" and logs
   two: the label `case 1` does not match, `case 2` does and wins, the second `case 2` and the default are skipped;
   and with x = 7 the default block runs *)
Definition ex_switch_body : list stmt :=
  [SExpr (EUnary "case" (ENum 1));
   SExpr (EBinary ":" (EUnary "case" (ENum 2)) (ECode [SExpr (EUnary "diag_log" (EStr "two")); SExpr (EStr "a")]));
   SExpr (EBinary ":" (EUnary "case" (ENum 2)) (ECode [SExpr (EStr "again")]));
   SExpr (EUnary "default" (ECode [SExpr (EStr "d")]))].
Definition ex_switch_prog (x:Z) : list stmt :=
  [SAssign "x" (ENum x); SAssign "r" (EBinary "do" (EUnary "switch" (EVar "x")) (ECode ex_switch_body)); SExpr (EVar "r")].
Example switch_inhabited : exists s', zprog init_state RNone (ex_switch_prog 2) (RStr "a") s' /\ st_trace s' = ["two"].
Proof.
  eexists. split.
  { eapply ZPCons; [eapply ZSAssign; [discriminate|reflexivity|eapply ZPure; eapply PNum|split; discriminate]|].
    eapply ZPCons.
    - eapply ZSAssign.
      { discriminate. } { reflexivity. }
      { change (RStr "a") with (res_of (RStr "a")).
        eapply ZSwitchRun; [reflexivity|eapply ZSwitchVal; [reflexivity|intros ? ?; discriminate|eapply ZPure; eapply PVarG; reflexivity|split; discriminate]|eapply ZCode| | | |].
        - eapply ZWLabel; [reflexivity|eapply PNum|]. eapply ZWCaseHit; [reflexivity|reflexivity|eapply PNum|reflexivity].
        - reflexivity.
        - eexists _, _. split; [reflexivity|]. left. eexists. reflexivity.
        - eapply ZBCons; [eapply ZSExprV; eapply ZDiag; [reflexivity|intros ? ?; discriminate|eapply ZPure; eapply PStr|split; discriminate|reflexivity]|].
          eapply ZBLast. eapply ZSExprV. eapply ZPure. eapply PStr. }
      { split; discriminate. }
    - eapply ZPLast. eapply ZSExprV. eapply ZPure. eapply PVarG; reflexivity. }
  reflexivity.
Qed.
Example switch_default_inhabited : exists s', zprog init_state RNone (ex_switch_prog 7) (RStr "d") s' /\ st_trace s' = [].
Proof.
  eexists. split.
  { eapply ZPCons; [eapply ZSAssign; [discriminate|reflexivity|eapply ZPure; eapply PNum|split; discriminate]|].
    eapply ZPCons.
    - eapply ZSAssign.
      { discriminate. } { reflexivity. }
      { change (RStr "d") with (res_of (RStr "d")).
        eapply ZSwitchRun; [reflexivity|eapply ZSwitchVal; [reflexivity|intros ? ?; discriminate|eapply ZPure; eapply PVarG; reflexivity|split; discriminate]|eapply ZCode| | | |].
        - eapply ZWLabel; [reflexivity|eapply PNum|]. eapply ZWCaseSkip; [reflexivity|reflexivity|eapply PNum|reflexivity|].
          eapply ZWCaseSkip; [reflexivity|reflexivity|eapply PNum|reflexivity|]. eapply ZWDefault; [reflexivity|]. eapply ZWNil.
        - reflexivity.
        - eexists _, _. split; [reflexivity|]. left. eexists. reflexivity.
        - eapply ZBLast. eapply ZSExprV. eapply ZPure. eapply PStr. }
      { split; discriminate. }
    - eapply ZPLast. eapply ZSExprV. eapply ZPure. eapply PVarG; reflexivity. }
  reflexivity.
Qed.

(* ---- EARLY EXITS OUT OF THE CHOSEN BLOCK OF A SWITCH (constructors ZSwitchExit / ZSwitchBreak of zev, ZLSwitchThrow / ZLSwitchBreak of
   zloopleave in VM/SimExit.v).  The chosen block - a case's or the default's - runs in the frame of the switch body (the machine puts
   its instructions into that frame, C02_switch_body_vm above).  It may now be left early:
     by `if c exitWith {..}`: the handler runs as a frame of its own, the switch frame is marked as finished and completes with the
       handler's value whatever its behaviour still wanted to do - the switch yields the handler's value, nothing behind the exitWith
       runs (C02_vm_switch_exitwith; the reference semantics says the same: OExit x => x);
     by breakOut to the name the scope of the switch itself carries (scopeName inside the block names the switch frame): the switch
       yields the value handed to breakOut (C02_vm_switch_own_breakout);
     by a throw that a try-catch outside the switch takes, and by breakOut to a scope outside the switch: a switch standing as a statement
       and left that way is a statement of zthrow / zbreak through ZTLoop / ZKLoop, like a loop (C02_vm_switch_throw,
       C02_vm_switch_breakout: the state in which the handler starts / execution goes on below the named frame; the switch frame and its
       part of the operand stack are gone, the reference state with the scope of the switch closed Matches).
   Premises as for ZSwitchRun: the chosen block starts with a push or a variable read. *)
Theorem C02_ref_switch_exitwith : forall s n a b v body s1 s2 sw t ts x s4, lower n = "do" -> zev s a (RSwitch v) s1 -> zev s1 b (RCode body) s2 ->
  zswitch (enter s2 []) body (sw_start v) sw -> sw_target sw = Some (t :: ts) -> leaf_first (t :: ts) ->
  zblock (enter s2 []) RNil (t :: ts) (BExit x) s4 ->
  exists f0, forall f, f0 <= f -> eval f s (EBinary n a b) = (ONormal x, pop_scope s4).
Proof.
  exact (fun s n a b v body s1 s2 sw t ts x s4 H1 H2 H3 H4 H5 H6 H7 =>
           proj1 ref_runs_z _ _ _ _ (ZSwitchExit s n a b v body s1 s2 sw t ts x s4 H1 H2 H3 H4 H5 H6 H7)).
Qed.
Print Assumptions C02_ref_switch_exitwith.
Theorem C02_vm_switch_exitwith : forall s n a b v body s1 s2 sw t ts x s4, lower n = "do" -> zev s a (RSwitch v) s1 -> zev s1 b (RCode body) s2 ->
  zswitch (enter s2 []) body (sw_start v) sw -> sw_target sw = Some (t :: ts) -> leaf_first (t :: ts) ->
  zblock (enter s2 []) RNil (t :: ts) (BExit x) s4 ->
  forall r c f rest pre post, Mach s r c f rest -> f_code f = pre ++ compile_expr (EBinary n a b) ++ post -> f_pos f = length pre ->
    exists r' c' f' rest', Steps r r' /\ Mach (pop_scope s4) r' c' f' rest' /\ c_values c' = cv x :: c_values c /\
      moved f f' /\ f_pos f' = f_pos f + length (compile_expr (EBinary n a b)) /\ Forall2 kept rest rest'.
Proof.
  exact (fun s n a b v body s1 s2 sw t ts x s4 H1 H2 H3 H4 H5 H6 H7 =>
           proj1 vm_runs_z _ _ _ _ (ZSwitchExit s n a b v body s1 s2 sw t ts x s4 H1 H2 H3 H4 H5 H6 H7)).
Qed.
Print Assumptions C02_vm_switch_exitwith.
Theorem C02_ref_switch_own_breakout : forall s n a b v body s1 s2 sw t ts t0 x s4, lower n = "do" -> zev s a (RSwitch v) s1 -> zev s1 b (RCode body) s2 ->
  zswitch (enter s2 []) body (sw_start v) sw -> sw_target sw = Some (t :: ts) -> leaf_first (t :: ts) ->
  zbreak (enter s2 []) RNil (t :: ts) t0 x s4 -> top_name s4 = t0 ->
  exists f0, forall f, f0 <= f -> eval f s (EBinary n a b) = (ONormal x, pop_scope s4).
Proof.
  exact (fun s n a b v body s1 s2 sw t ts t0 x s4 H1 H2 H3 H4 H5 H6 H7 H8 =>
           proj1 ref_runs_z _ _ _ _ (ZSwitchBreak s n a b v body s1 s2 sw t ts t0 x s4 H1 H2 H3 H4 H5 H6 H7 H8)).
Qed.
Print Assumptions C02_ref_switch_own_breakout.
Theorem C02_vm_switch_own_breakout : forall s n a b v body s1 s2 sw t ts t0 x s4, lower n = "do" -> zev s a (RSwitch v) s1 -> zev s1 b (RCode body) s2 ->
  zswitch (enter s2 []) body (sw_start v) sw -> sw_target sw = Some (t :: ts) -> leaf_first (t :: ts) ->
  zbreak (enter s2 []) RNil (t :: ts) t0 x s4 -> top_name s4 = t0 ->
  forall r c f rest pre post, Mach s r c f rest -> f_code f = pre ++ compile_expr (EBinary n a b) ++ post -> f_pos f = length pre ->
    exists r' c' f' rest', Steps r r' /\ Mach (pop_scope s4) r' c' f' rest' /\ c_values c' = cv x :: c_values c /\
      moved f f' /\ f_pos f' = f_pos f + length (compile_expr (EBinary n a b)) /\ Forall2 kept rest rest'.
Proof.
  exact (fun s n a b v body s1 s2 sw t ts t0 x s4 H1 H2 H3 H4 H5 H6 H7 H8 =>
           proj1 vm_runs_z _ _ _ _ (ZSwitchBreak s n a b v body s1 s2 sw t ts t0 x s4 H1 H2 H3 H4 H5 H6 H7 H8)).
Qed.
Print Assumptions C02_vm_switch_own_breakout.
Theorem C02_ref_switch_throw : forall s n a b v body s1 s2 sw t ts y s4, lower n = "do" -> zev s a (RSwitch v) s1 -> zev s1 b (RCode body) s2 ->
  zswitch (enter s2 []) body (sw_start v) sw -> sw_target sw = Some (t :: ts) -> leaf_first (t :: ts) ->
  zthrow (enter s2 []) RNil (t :: ts) y s4 ->
  exists f0, forall f, f0 <= f -> eval f s (EBinary n a b) = (OThrow y, pop_scope s4).
Proof.
  exact (fun s n a b v body s1 s2 sw t ts y s4 H1 H2 H3 H4 H5 H6 H7 =>
           C02_ref_runs_loop_exit _ _ _ _ (ZLSwitchThrow s n a b v body s1 s2 sw t ts y s4 H1 H2 H3 H4 H5 H6 H7)).
Qed.
Print Assumptions C02_ref_switch_throw.
Theorem C02_vm_switch_throw : forall s n a b v body s1 s2 sw t ts y s4, lower n = "do" -> zev s a (RSwitch v) s1 -> zev s1 b (RCode body) s2 ->
  zswitch (enter s2 []) body (sw_start v) sw -> sw_target sw = Some (t :: ts) -> leaf_first (t :: ts) ->
  zthrow (enter s2 []) RNil (t :: ts) y s4 ->
  forall reg r c f restf below pre post inner ft rest h jn below_t,
    AtM s reg r c f restf below -> Fresh c below ->
    f_code f = pre ++ compile_expr (EBinary n a b) ++ post -> f_pos f = length pre ->
    f :: restf = inner ++ ft :: rest -> Forall (fun m => f_err m = None) inner -> f_err ft = Some (ECatch h) ->
    below = jn ++ below_t -> under jn -> length below_t = f_base ft ->
    exists r' c' rest' ft0, Steps r r' /\ Forall2 kept rest rest' /\ moved ft ft0 /\
      Good r' c' /\ quirks r' = ([], 0) /\ c_frames c' = handler_frame ft0 h (cv y) :: rest' /\
      Match (set_top_vars (drop_scopes (length inner) (pop_scope s4)) [("_exception", y)]) r' (handler_frame ft0 h (cv y) :: rest') /\
      exists jn', c_values c' = VNil :: jn' ++ below_t /\ under jn'.
Proof.
  exact (fun s n a b v body s1 s2 sw t ts y s4 H1 H2 H3 H4 H5 H6 H7 =>
           C02_vm_runs_loop_throw _ _ _ _ (ZLSwitchThrow s n a b v body s1 s2 sw t ts y s4 H1 H2 H3 H4 H5 H6 H7)).
Qed.
Print Assumptions C02_vm_switch_throw.
Theorem C02_ref_switch_breakout : forall s n a b v body s1 s2 sw t ts t0 x s4, lower n = "do" -> zev s a (RSwitch v) s1 -> zev s1 b (RCode body) s2 ->
  zswitch (enter s2 []) body (sw_start v) sw -> sw_target sw = Some (t :: ts) -> leaf_first (t :: ts) ->
  zbreak (enter s2 []) RNil (t :: ts) t0 x s4 -> top_name s4 <> t0 ->
  exists f0, forall f, f0 <= f -> eval f s (EBinary n a b) = (OBreak t0 x, pop_scope s4).
Proof.
  exact (fun s n a b v body s1 s2 sw t ts t0 x s4 H1 H2 H3 H4 H5 H6 H7 H8 =>
           C02_ref_runs_loop_exit _ _ _ _ (ZLSwitchBreak s n a b v body s1 s2 sw t ts t0 x s4 H1 H2 H3 H4 H5 H6 H7 H8)).
Qed.
Print Assumptions C02_ref_switch_breakout.
Theorem C02_vm_switch_breakout : forall s n a b v body s1 s2 sw t ts t0 x s4, lower n = "do" -> zev s a (RSwitch v) s1 -> zev s1 b (RCode body) s2 ->
  zswitch (enter s2 []) body (sw_start v) sw -> sw_target sw = Some (t :: ts) -> leaf_first (t :: ts) ->
  zbreak (enter s2 []) RNil (t :: ts) t0 x s4 -> top_name s4 <> t0 ->
  forall reg r c f restf below pre post k top fn fc rest jn below_n,
    AtM s reg r c f restf below -> Fresh c below ->
    f_code f = pre ++ compile_expr (EBinary n a b) ++ post -> f_pos f = length pre ->
    find_name t0 (st_scopes (pop_scope s4)) 0 = Some k ->
    f :: restf = top ++ fn :: fc :: rest -> length top = k ->
    Forall (fun m => f_base fn <= f_base m) top -> f_base fc <= f_base fn ->
    below = jn ++ below_n -> length below_n = f_base fn ->
    exists r' c' fc' rest', Steps r r' /\ Mach (drop_scopes (S k) (pop_scope s4)) r' c' fc' rest' /\ c_values c' = cv x :: below_n /\
      kept fc fc' /\ Forall2 kept rest rest'.
Proof.
  exact (fun s n a b v body s1 s2 sw t ts t0 x s4 H1 H2 H3 H4 H5 H6 H7 H8 =>
           C02_vm_runs_loop_breakout _ _ _ _ _ (ZLSwitchBreak s n a b v body s1 s2 sw t ts t0 x s4 H1 H2 H3 H4 H5 H6 H7 H8)).
Qed.
Print Assumptions C02_vm_switch_breakout.
(* derivations.  (1) switch (1 + 1) do { case 1 : { 1 }; case 2 : { diag_log "two"; if (true) exitWith { 9 }; diag_log "dead"; 2 } }  yields 9 and
   logs two only *)
Definition ex_sw_exit : expr :=
  EBinary "do" (EUnary "switch" (EBinary "+" (ENum 1) (ENum 1)))
    (ECode [SExpr (EBinary ":" (EUnary "case" (ENum 1)) (ECode [SExpr (ENum 1)]));
            SExpr (EBinary ":" (EUnary "case" (ENum 2))
                     (ECode [SExpr (EUnary "diag_log" (EStr "two"));
                             SExpr (EBinary "exitWith" (EUnary "if" (EBool true)) (ECode [SExpr (ENum 9)]));
                             SExpr (EUnary "diag_log" (EStr "dead")); SExpr (ENum 2)]))]).
Example switch_exitwith_inhabited : exists v s', zev init_state ex_sw_exit v s' /\ v = RNum 9 /\ st_trace s' = ["two"].
Proof.
  eexists _, _. split.
  { eapply ZSwitchExit; [reflexivity|eapply ZSwitchVal; [reflexivity|intros ? ?; discriminate|eapply ZPure; eapply PBin; [eapply PNum|eapply PNum|reflexivity]|split; discriminate]|eapply ZCode| | | |].
    - eapply ZWCaseSkip; [reflexivity|reflexivity|eapply PNum|reflexivity|]. eapply ZWCaseHit; [reflexivity|reflexivity|eapply PNum|reflexivity].
    - reflexivity.
    - eexists _, _. split; [reflexivity|]. left. eexists. reflexivity.
    - eapply ZBCons.
      + eapply ZSExprV. eapply ZDiag; [reflexivity|intros ? ?; discriminate|eapply ZPure; eapply PStr|split; discriminate|reflexivity].
      + eapply ZBExit; [reflexivity| |eapply ZCode|].
        * eapply ZIf; [reflexivity|intros ? ?; discriminate|eapply ZPure; eapply PBool].
        * eapply ZBLast. eapply ZSExprV. eapply ZPure. eapply PNum. }
  split; reflexivity.
Qed.
(* (2) try { switch (1 + 1) do { case 2 : { diag_log "two"; throw (2 + 3); 1 } }; diag_log "dead" } catch { _exception + 1 }  yields 6 *)
Definition ex_sw_throw : expr :=
  EBinary "catch"
    (EUnary "try" (ECode [SExpr (EBinary "do" (EUnary "switch" (EBinary "+" (ENum 1) (ENum 1)))
                                   (ECode [SExpr (EBinary ":" (EUnary "case" (ENum 2))
                                             (ECode [SExpr (EUnary "diag_log" (EStr "two")); SExpr (EUnary "throw" (EBinary "+" (ENum 2) (ENum 3))); SExpr (ENum 1)]))]));
                          SExpr (EUnary "diag_log" (EStr "dead"))]))
    (ECode [SExpr (EBinary "+" (EVar "_exception") (ENum 1))]).
Example switch_throw_inhabited : exists v s', zev init_state ex_sw_throw v s' /\ v = RNum 6 /\ st_trace s' = ["two"].
Proof.
  eexists _, _. split.
  { eapply ZCatchThrow; [reflexivity|eapply ZTryVal; [reflexivity|intros ? ?; discriminate|eapply ZCode]|eapply ZCode| |].
    - eapply ZTLoop. eapply ZLSwitchThrow; [reflexivity|eapply ZSwitchVal; [reflexivity|intros ? ?; discriminate|eapply ZPure; eapply PBin; [eapply PNum|eapply PNum|reflexivity]|split; discriminate]|eapply ZCode| | | |].
      + eapply ZWCaseHit; [reflexivity|reflexivity|eapply PNum|reflexivity].
      + reflexivity.
      + eexists _, _. split; [reflexivity|]. left. eexists. reflexivity.
      + eapply ZTCons.
        * eapply ZSExprV. eapply ZDiag; [reflexivity|intros ? ?; discriminate|eapply ZPure; eapply PStr|split; discriminate|reflexivity].
        * eapply ZTThrow; [reflexivity|intros ? ?; discriminate|eapply ZPure; eapply PBin; [eapply PNum|eapply PNum|reflexivity]|split; discriminate].
    - eapply ZBLast. eapply ZSExprV. eapply ZPure. eapply PBin; [eapply PVarL; reflexivity|eapply PNum|reflexivity]. }
  split; reflexivity.
Qed.
(* (3) r = call { scopeName "o"; switch (0 + 1) do { case 1 : { 7 breakOut "o" } }; diag_log "dead"; 1 }; r  yields 7 *)
Definition ex_sw_break_prog : list stmt :=
  [SAssign "r" (EUnary "call" (ECode
     [SExpr (EUnary "scopeName" (EStr "o"));
      SExpr (EBinary "do" (EUnary "switch" (EBinary "+" (ENum 0) (ENum 1)))
               (ECode [SExpr (EBinary ":" (EUnary "case" (ENum 1)) (ECode [SExpr (EBinary "breakOut" (ENum 7) (EStr "o"))]))]));
      SExpr (EUnary "diag_log" (EStr "dead")); SExpr (ENum 1)]));
   SExpr (EVar "r")].
Example switch_breakout_inhabited : exists s', zprog init_state RNone ex_sw_break_prog (RNum 7) s' /\ st_trace s' = [].
Proof.
  eexists. split.
  { eapply ZPCons.
    - eapply ZSAssign.
      { discriminate. } { reflexivity. }
      { eapply ZCallBreak; [reflexivity|intros ? ?; discriminate|eapply ZCode| |].
        - eapply ZKCons.
          + eapply ZSExprV. eapply ZScopeName; [reflexivity|intros ? ?; discriminate|eapply ZPure; eapply PStr|reflexivity|reflexivity].
          + eapply ZKLoop. eapply ZLSwitchBreak; [reflexivity|eapply ZSwitchVal; [reflexivity|intros ? ?; discriminate|eapply ZPure; eapply PBin; [eapply PNum|eapply PNum|reflexivity]|split; discriminate]|eapply ZCode| | | | |].
            * eapply ZWCaseHit; [reflexivity|reflexivity|eapply PNum|reflexivity].
            * reflexivity.
            * eexists _, _. split; [reflexivity|]. left. eexists. reflexivity.
            * eapply ZKBreakV; [reflexivity|eapply ZPure; eapply PNum|split; discriminate|eapply ZPure; eapply PStr|discriminate].
            * discriminate.
        - reflexivity. }
      { split; discriminate. }
    - eapply ZPLast. eapply ZSExprV. eapply ZPure. eapply PVarG; reflexivity. }
  reflexivity.
Qed.
(* (4) switch (0 + 1) do { case 1 : { scopeName "w"; 5 breakOut "w"; 0 } }  yields 5: the scope of the switch itself carries the name *)
Definition ex_sw_own : expr :=
  EBinary "do" (EUnary "switch" (EBinary "+" (ENum 0) (ENum 1)))
    (ECode [SExpr (EBinary ":" (EUnary "case" (ENum 1))
                     (ECode [SExpr (EUnary "scopeName" (EStr "w")); SExpr (EBinary "breakOut" (ENum 5) (EStr "w")); SExpr (ENum 0)]))]).
Example switch_own_name_inhabited : exists v s', zev init_state ex_sw_own v s' /\ v = RNum 5.
Proof.
  eexists _, _. split.
  { eapply ZSwitchBreak; [reflexivity|eapply ZSwitchVal; [reflexivity|intros ? ?; discriminate|eapply ZPure; eapply PBin; [eapply PNum|eapply PNum|reflexivity]|split; discriminate]|eapply ZCode| | | | |].
    - eapply ZWCaseHit; [reflexivity|reflexivity|eapply PNum|reflexivity].
    - reflexivity.
    - eexists _, _. split; [reflexivity|]. left. eexists. reflexivity.
    - eapply ZKCons.
      + eapply ZSExprV. eapply ZScopeName; [reflexivity|intros ? ?; discriminate|eapply ZPure; eapply PStr|reflexivity|reflexivity].
      + eapply ZKBreakV; [reflexivity|eapply ZPure; eapply PNum|split; discriminate|eapply ZPure; eapply PStr|discriminate].
    - reflexivity. }
  reflexivity.
Qed.
(* ... and the four programs evaluated inside Coq on the reference semantics and on the VM model *)
Example switch_exits_ref_and_vm_agree :
  run_ref 200 [SExpr ex_sw_exit] = "OK:M<two>,V<9>" /\
  run_final (load (create_rt [] 0 0 (100 * 100) 150) (compile_block [SExpr ex_sw_exit])) = "-1:0:3:60019,M<two>,3:60095,M<VALUE 9>," /\
  run_ref 200 [SExpr ex_sw_throw] = "OK:M<two>,V<6>" /\
  run_final (load (create_rt [] 0 0 (100 * 100) 150) (compile_block [SExpr ex_sw_throw])) = "-1:0:3:60019,M<two>,3:60095,M<VALUE 6>," /\
  run_ref 200 ex_sw_break_prog = "OK:V<7>" /\
  run_final (load (create_rt [] 0 0 (100 * 100) 150) (compile_block ex_sw_break_prog)) = "-1:0:3:60095,M<VALUE 7>," /\
  run_ref 200 [SExpr ex_sw_own] = "OK:V<5>" /\
  run_final (load (create_rt [] 0 0 (100 * 100) 150) (compile_block [SExpr ex_sw_own])) = "-1:0:3:60095,M<VALUE 5>,".
Proof. repeat split; vm_compute; reflexivity. Qed.

(* ---- AN EXIT RAISED INSIDE AN OPERAND (constructors ZLUn / ZLBinL / ZLBinR / ZLArr / ZLCallU / ZLCallB / ZLThen / ZLThenElse of zloopleave,
   relations zscopeleave and zelemsleave, ZTAssign / ZTLocal / ZKAssign / ZKLocal of zthrow / zbreak in VM/SimExit.v).  zloopleave s e a s'
   now reads "the EXPRESSION e is left by a" : a loop or a switch as before, or the operand of a unary operator, the left or right operand of a
   binary one, an element of an array is left, or e is call {..} / x call {..} / if-then(-else) whose block is left through its scope.  So
   C02_ref_runs_loop_exit / C02_vm_runs_loop_throw / C02_vm_runs_loop_breakout above speak about all of these, and so do C02_vm_runs_throw /
   C02_vm_runs_breakout through ZTLoop / ZKLoop and the new statement forms x = e, private _x = e.
   breakOut is covered in EVERY operand position (C02_vm_operand_breakout): the operands that were already evaluated wait on the operand stack
   above the named frame's base, and pop_clearing drops them with the regions of the frames it removes - the machine continues below the named
   frame with exactly the value on what lay below that frame, the abandoned expression leaves nothing behind, its statement has no effect.
   A throw is covered in the positions in which NOTHING WAITS: operand of a unary operator, left operand, first element, and any nesting of
   these through call / if-then(-else) - hence the name C02_vm_operand_throw_partial.  The full statement wanted is the one below with the
   constructors ZLBinR / ZELTl also for AThrow; it is not proved: throw_any pops frames without clearing the stack, the waiting operands
   stay under the nil the throw pushes, the handler starts on them - harmless on the machine (the handler's frame drops its region when it
   completes; operand_exits_ref_and_vm_agree evaluates such a program on both sides), but the region invariant of the simulation says
   "under a region's value lie nils only" (`under`), and widening it to arbitrary leftovers means re-proving the block lemmas of SimBlock /
   SimCtl / SimExit. *)
Theorem C02_vm_operand_breakout : forall s e t v s', zloopleave s e (ABreak t v) s' ->
  forall r c f restf pre post k top fn fc rest jn below_n,
    Mach s r c f restf -> f_code f = pre ++ compile_expr e ++ post -> f_pos f = length pre ->
    find_name t (st_scopes s') 0 = Some k ->
    f :: restf = top ++ fn :: fc :: rest -> length top = k ->
    Forall (fun m => f_base fn <= f_base m) top -> f_base fc <= f_base fn ->
    c_values c = jn ++ below_n -> length below_n = f_base fn ->
    exists r' c' fc' rest', Steps r r' /\ Mach (drop_scopes (S k) s') r' c' fc' rest' /\ c_values c' = cv v :: below_n /\
      kept fc fc' /\ Forall2 kept rest rest'.
Proof.
  exact (fun s e t v s' H r c f restf pre post k top fn fc rest jn below_n MA EC EP =>
           proj1 (proj2 (proj2 (proj2 (proj2 (proj2 (proj2 (proj2 (proj2 (proj2 vm_runs_z))))))))) s e (ABreak t v) s' H r c f restf pre post MA EC EP k top fn fc rest jn below_n).
Qed.
Print Assumptions C02_vm_operand_breakout.
Theorem C02_vm_operand_throw_partial : forall s e x s', zloopleave s e (AThrow x) s' ->
  forall r c f restf pre post inner ft rest h jn below_t,
    Mach s r c f restf -> f_code f = pre ++ compile_expr e ++ post -> f_pos f = length pre ->
    f :: restf = inner ++ ft :: rest -> Forall (fun m => f_err m = None) inner -> f_err ft = Some (ECatch h) ->
    c_values c = jn ++ below_t -> under jn -> length below_t = f_base ft ->
    exists r' c' rest' ft0, Steps r r' /\ Forall2 kept rest rest' /\ moved ft ft0 /\
      Good r' c' /\ quirks r' = ([], 0) /\ c_frames c' = handler_frame ft0 h (cv x) :: rest' /\
      Match (set_top_vars (drop_scopes (length inner) s') [("_exception", x)]) r' (handler_frame ft0 h (cv x) :: rest') /\
      exists jn', c_values c' = VNil :: jn' ++ below_t /\ under jn'.
Proof.
  exact (fun s e x s' H r c f restf pre post inner ft rest h jn below_t MA EC EP =>
           proj1 (proj2 (proj2 (proj2 (proj2 (proj2 (proj2 (proj2 (proj2 (proj2 vm_runs_z))))))))) s e (AThrow x) s' H r c f restf pre post MA EC EP inner ft rest h jn below_t).
Qed.
Print Assumptions C02_vm_operand_throw_partial.
(* a block in a scope of its own (call, then, else) left through that scope, and the elements of an array *)
Theorem C02_ref_scope_left : forall s vars b a s', zscopeleave s vars b a s' ->
  exists f0, forall f, f0 <= f -> in_scope_f f s (plain_scope_f s vars) b = (oa a, s').
Proof. exact (proj1 (proj2 (proj2 (proj2 (proj2 (proj2 (proj2 (proj2 (proj2 (proj2 (proj2 (proj2 (proj2 (proj2 ref_runs_z)))))))))))))). Qed.
Print Assumptions C02_ref_scope_left.
Theorem C02_vm_scope_left : forall s vars b a s', zscopeleave s vars b a s' ->
  forall r1 c0 fc restf,
    Good r1 (push_value (push_frame c0 (mk_frame (cur_ns c0) (compile_block b) None None (mvars vars))) VNil) -> quirks r1 = ([], 0) ->
    c_frames c0 = fc :: restf -> Match s r1 (fc :: restf) -> f_base fc <= length (c_values c0) ->
    Leaves0 a s' r1 fc restf (c_values c0).
Proof. exact (proj1 (proj2 (proj2 (proj2 (proj2 (proj2 (proj2 (proj2 (proj2 (proj2 (proj2 (proj2 (proj2 (proj2 vm_runs_z)))))))))))))). Qed.
Print Assumptions C02_vm_scope_left.
Theorem C02_ref_elements_left : forall s l a s', zelemsleave s l a s' ->
  exists f0, forall f, f0 <= f -> forall acc, go_arr f s l acc = (oa a, s').
Proof. exact (proj1 (proj2 (proj2 (proj2 (proj2 (proj2 (proj2 (proj2 (proj2 (proj2 (proj2 (proj2 (proj2 (proj2 (proj2 ref_runs_z))))))))))))))). Qed.
Print Assumptions C02_ref_elements_left.
Theorem C02_vm_elements_left : forall s l a s', zelemsleave s l a s' ->
  forall r c f restf pre post, Mach s r c f restf ->
    f_code f = pre ++ flat_map compile_expr l ++ post -> f_pos f = length pre -> Leaves0 a s' r f restf (c_values c).
Proof. exact (proj1 (proj2 (proj2 (proj2 (proj2 (proj2 (proj2 (proj2 (proj2 (proj2 (proj2 (proj2 (proj2 (proj2 (proj2 vm_runs_z))))))))))))))). Qed.
Print Assumptions C02_vm_elements_left.
(* derivations.  (1) r = call { scopeName "o"; x = [1, 2 + (call { 7 breakOut "o" }), 3]; diag_log "dead"; 1 }; r   yields 7: when breakOut
   runs, the element 1 and the left operand 2 wait on the operand stack; they go with the regions pop_clearing drops, x is not assigned *)
Definition ex_operand_break_prog : list stmt :=
  [SAssign "r" (EUnary "call" (ECode
     [SExpr (EUnary "scopeName" (EStr "o"));
      SAssign "x" (EArr [ENum 1;
                         EBinary "+" (ENum 2) (EUnary "call" (ECode [SExpr (EBinary "breakOut" (ENum 7) (EStr "o"))]));
                         ENum 3]);
      SExpr (EUnary "diag_log" (EStr "dead")); SExpr (ENum 1)]));
   SExpr (EVar "r")].
Example operand_breakout_inhabited : exists s', zprog init_state RNone ex_operand_break_prog (RNum 7) s' /\ st_trace s' = [] /\ glob_of s' "x" = None.
Proof.
  eexists. split.
  { eapply ZPCons.
    - eapply ZSAssign.
      { discriminate. } { reflexivity. }
      { eapply ZCallBreak; [reflexivity|intros ? ?; discriminate|eapply ZCode| |].
        - eapply ZKCons.
          + eapply ZSExprV. eapply ZScopeName; [reflexivity|intros ? ?; discriminate|eapply ZPure; eapply PStr|reflexivity|reflexivity].
          + eapply ZKAssign. eapply ZLArr. eapply ZELTl; [eapply ZPure; eapply PNum|split; discriminate|].
            eapply ZELHd. eapply ZLBinR; [eapply ZPure; eapply PNum|].
            eapply ZLCallU; [reflexivity|intros ? ?; discriminate|eapply ZCode|].
            eapply ZSLBreak.
            * eapply ZKBreakV; [reflexivity|eapply ZPure; eapply PNum|split; discriminate|eapply ZPure; eapply PStr|discriminate].
            * discriminate.
        - reflexivity. }
      { split; discriminate. }
    - eapply ZPLast. eapply ZSExprV. eapply ZPure. eapply PVarG; reflexivity. }
  split; reflexivity.
Qed.
(* (2) try { x = (call { diag_log "in"; throw (2 + 3) }) + 1; diag_log "dead" } catch { _exception }   yields 5: the throw is raised while
   the left operand of + is evaluated (nothing waits on the stack) *)
Definition ex_operand_throw : expr :=
  EBinary "catch"
    (EUnary "try" (ECode [SAssign "x" (EBinary "+" (EUnary "call" (ECode [SExpr (EUnary "diag_log" (EStr "in"));
                                                                          SExpr (EUnary "throw" (EBinary "+" (ENum 2) (ENum 3)))]))
                                                   (ENum 1));
                          SExpr (EUnary "diag_log" (EStr "dead"))]))
    (ECode [SExpr (EVar "_exception")]).
Example operand_throw_inhabited : exists v s', zev init_state ex_operand_throw v s' /\ v = RNum 5 /\ st_trace s' = ["in"].
Proof.
  eexists _, _. split.
  { eapply ZCatchThrow; [reflexivity|eapply ZTryVal; [reflexivity|intros ? ?; discriminate|eapply ZCode]|eapply ZCode| |].
    - eapply ZTAssign. eapply ZLBinL. eapply ZLCallU; [reflexivity|intros ? ?; discriminate|eapply ZCode|].
      eapply ZSLThrow. eapply ZTCons.
      + eapply ZSExprV. eapply ZDiag; [reflexivity|intros ? ?; discriminate|eapply ZPure; eapply PStr|split; discriminate|reflexivity].
      + eapply ZTThrow; [reflexivity|intros ? ?; discriminate|eapply ZPure; eapply PBin; [eapply PNum|eapply PNum|reflexivity]|split; discriminate].
    - eapply ZBLast. eapply ZSExprV. eapply ZPure. eapply PVarL; reflexivity. }
  split; reflexivity.
Qed.
(* ... both programs evaluated inside Coq on the reference semantics and on the VM model; and - for the part that is NOT proved - the two
   sides also agree on a throw raised while an operand waits:  try { [1, call { throw (2 + 3) }] } catch { _exception }  yields 5 on both *)
Definition ex_pending_throw : expr :=
  EBinary "catch" (EUnary "try" (ECode [SExpr (EArr [ENum 1; EUnary "call" (ECode [SExpr (EUnary "throw" (EBinary "+" (ENum 2) (ENum 3)))])])]))
                  (ECode [SExpr (EVar "_exception")]).
Example operand_exits_ref_and_vm_agree :
  run_ref 200 ex_operand_break_prog = "OK:V<7>" /\
  run_final (load (create_rt [] 0 0 (100 * 100) 150) (compile_block ex_operand_break_prog)) = "-1:0:3:60095,M<VALUE 7>," /\
  run_ref 200 [SExpr ex_operand_throw] = "OK:M<in>,V<5>" /\
  run_final (load (create_rt [] 0 0 (100 * 100) 150) (compile_block [SExpr ex_operand_throw])) = "-1:0:3:60019,M<in>,3:60095,M<VALUE 5>," /\
  run_ref 200 [SExpr ex_pending_throw] = "OK:V<5>" /\
  run_final (load (create_rt [] 0 0 (100 * 100) 150) (compile_block [SExpr ex_pending_throw])) = "-1:0:3:60095,M<VALUE 5>,".
Proof. repeat split; vm_compute; reflexivity. Qed.

(* ---- exitWith INSIDE AN OPERAND (relations zexexit / zelemsexit, constructors ZBExitIn / ZBExitAssign / ZBExitLocal of zblock in VM/SimExit.v).
   `if c exitWith {..}` with a true condition may stand in any operand position - operand of a unary operator, either operand of a binary one,
   any element of an array, nested - of a statement e, x = e or private _x = e: the scope in which the statement stands ends with the
   handler's value all the same (BExit: C02_vm_runs_blocks_with_exit / C02_ref_runs_blocks_with_exit above speak about such blocks now,
   C02_program_runs_with_exit about a root scope left that way).  What the machine does with the operands that were already evaluated:
   they wait in the part of the operand stack that belongs to the scope that dies; exitWith marks that frame as finished and runs the handler
   as a frame of its own on top of them; when the handler's value arrives, the dead frame completes with it and clear_values drops everything
   above its base - the waiting operands included.  Nothing of the abandoned expression survives, the pending operator and the assignment do
   not run.  Every position is covered (no restriction as for throw: the waiting operands are never looked at again). *)
Theorem C02_ref_operand_exitwith : forall s e v s', zexexit s e v s' ->
  exists f0, forall f, f0 <= f -> eval f s e = (OExit v, s').
Proof. exact (proj1 (proj2 (proj2 (proj2 (proj2 (proj2 (proj2 (proj2 (proj2 (proj2 (proj2 (proj2 (proj2 (proj2 (proj2 (proj2 ref_runs_z)))))))))))))))). Qed.
Print Assumptions C02_ref_operand_exitwith.
Theorem C02_vm_operand_exitwith : forall s e v s', zexexit s e v s' ->
  forall r c f fc rest pre post pend below, Mach s r c f (fc :: rest) ->
    f_code f = pre ++ compile_expr e ++ post -> f_pos f = length pre ->
    c_values c = pend ++ below -> length below = f_base f -> f_base fc <= length below ->
    exists r' c' fc' rest', Steps r r' /\ Mach (pop_scope s') r' c' fc' rest' /\ c_values c' = cv v :: below /\
      kept fc fc' /\ Forall2 kept rest rest'.
Proof. exact (proj1 (proj2 (proj2 (proj2 (proj2 (proj2 (proj2 (proj2 (proj2 (proj2 (proj2 (proj2 (proj2 (proj2 (proj2 (proj2 vm_runs_z)))))))))))))))). Qed.
Print Assumptions C02_vm_operand_exitwith.
Theorem C02_ref_elements_exitwith : forall s l v s', zelemsexit s l v s' ->
  exists f0, forall f, f0 <= f -> forall acc, go_arr f s l acc = (OExit v, s').
Proof. exact (proj2 (proj2 (proj2 (proj2 (proj2 (proj2 (proj2 (proj2 (proj2 (proj2 (proj2 (proj2 (proj2 (proj2 (proj2 (proj2 ref_runs_z)))))))))))))))). Qed.
Print Assumptions C02_ref_elements_exitwith.
Theorem C02_vm_elements_exitwith : forall s l v s', zelemsexit s l v s' ->
  forall r c f fc rest pre post pend below, Mach s r c f (fc :: rest) ->
    f_code f = pre ++ flat_map compile_expr l ++ post -> f_pos f = length pre ->
    c_values c = pend ++ below -> length below = f_base f -> f_base fc <= length below ->
    exists r' c' fc' rest', Steps r r' /\ Mach (pop_scope s') r' c' fc' rest' /\ c_values c' = cv v :: below /\
      kept fc fc' /\ Forall2 kept rest rest'.
Proof. exact (proj2 (proj2 (proj2 (proj2 (proj2 (proj2 (proj2 (proj2 (proj2 (proj2 (proj2 (proj2 (proj2 (proj2 (proj2 (proj2 vm_runs_z)))))))))))))))). Qed.
Print Assumptions C02_vm_elements_exitwith.
(* ... and in the ROOT scope of a program (VM/SimProg.v): the run ends with result `empty`, no frame, exactly the handler's value *)
Theorem C02_vm_operand_exitwith_root : forall s e v s', zexexit s e v s' ->
  forall r c f pre post, Mach s r c f [] -> f_base f = 0 -> f_code f = pre ++ compile_expr e ++ post -> f_pos f = length pre ->
  exists rf cf, Steps r rf /\ cur rf = Some cf /\ c_frames cf = [] /\ c_values cf = [cv v] /\
    world rf = (mnss (st_nss s'), st_trace s') /\ do_iter rf = Ok (Return REmpty rf).
Proof. exact (proj1 (proj2 (proj2 (proj2 (proj2 (proj2 (proj2 (proj2 (proj2 (proj2 (proj2 (proj2 (proj2 (proj2 (proj2 (proj2 root_exits)))))))))))))))). Qed.
Print Assumptions C02_vm_operand_exitwith_root.
(* a derivation:  r = call { x = [1, 2 + (if (true) exitWith { diag_log "h"; 9 }), 3]; diag_log "dead"; 1 }; r   yields 9 and logs h: when exitWith
   runs, the element 1 and the left operand 2 wait in the part of the operand stack that belongs to the scope of the call; that scope ends
   with the handler's value, its part of the stack is dropped, x is not assigned, nothing behind the statement runs *)
Definition ex_operand_exit_prog : list stmt :=
  [SAssign "r" (EUnary "call" (ECode
     [SAssign "x" (EArr [ENum 1;
                         EBinary "+" (ENum 2) (EBinary "exitWith" (EUnary "if" (EBool true))
                                                  (ECode [SExpr (EUnary "diag_log" (EStr "h")); SExpr (ENum 9)]));
                         ENum 3]);
      SExpr (EUnary "diag_log" (EStr "dead")); SExpr (ENum 1)]));
   SExpr (EVar "r")].
Example operand_exitwith_inhabited : exists v s', zprog init_state RNone ex_operand_exit_prog v s' /\ v = RNum 9 /\ st_trace s' = ["h"] /\ glob_of s' "x" = None.
Proof.
  eexists _, _. split.
  { eapply ZPCons.
    - eapply ZSAssign.
      { discriminate. } { reflexivity. }
      { eapply ZCallU; [reflexivity|intros ? ?; discriminate|eapply ZCode|].
        eapply ZBExitAssign. eapply ZXArr. eapply ZXETl; [eapply ZPure; eapply PNum|split; discriminate|].
        eapply ZXEHd. eapply ZXBinR; [eapply ZPure; eapply PNum|].
        eapply ZXHere; [reflexivity| |eapply ZCode|].
        - eapply ZIf; [reflexivity|intros ? ?; discriminate|eapply ZPure; eapply PBool].
        - eapply ZBCons.
          + eapply ZSExprV. eapply ZDiag; [reflexivity|intros ? ?; discriminate|eapply ZPure; eapply PStr|split; discriminate|reflexivity].
          + eapply ZBLast. eapply ZSExprV. eapply ZPure. eapply PNum. }
      { split; discriminate. }
    - eapply ZPLast. eapply ZSExprV. eapply ZPure. eapply PVarG; reflexivity. }
  repeat split; reflexivity.
Qed.
(* ... and the program evaluated inside Coq on the reference semantics and on the VM model *)
Example operand_exitwith_ref_and_vm_agree :
  run_ref 200 ex_operand_exit_prog = "OK:M<h>,V<9>" /\
  run_final (load (create_rt [] 0 0 (100 * 100) 150) (compile_block ex_operand_exit_prog)) = "-1:0:3:60019,M<h>,3:60095,M<VALUE 9>,".
Proof. split; vm_compute; reflexivity. Qed.
