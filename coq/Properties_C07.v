(* C07 - equality is an equivalence consistent with hashing; HashMap is a finite map.
   Theorems only; proofs in Data/DataTree.v (value level), Data/DataBucket.v (bucketed table
   refines the reference dictionary), Data/DataProofs.v + Data/DataFrame.v (operator level).
   The model (Data/DataDefs.v) is tied to the C++ by the correspondence runs of checks/C07.py
   and checks/C08.py.  tdeq inv = data::equals (inv: the `invariant` flag of ==), teq =
   value::operator==, t_iseq = isEqualTo, t_eqeq = ==. *)
From Coq Require Import ZArith List Bool.
Import ListNotations.
From SqfVerif Require Import Data.DataDefs Data.DataTree Data.DataBucket Data.DataBridge Data.DataHeap Data.DataStep Data.DataTerm
  Data.DataFrame Data.DataProofs.
Local Open Scope Z_scope.

(* isEqualTo is symmetric - on all values, nil and NaN included.  wf_tree is the container
   invariant of std::unordered_map (no two equal keys in one HashMap). *)
Theorem C07_veq_sym : forall a b, wf_tree a = true -> wf_tree b = true ->
  t_iseq a b = t_iseq b a /\ (forall inv, tdeq inv a b = tdeq inv b a).
Proof.
  intros a b Wa Wb. split; [|intros; apply tdeq_sym; auto].
  unfold t_iseq. rewrite (teq_sym a b Wa Wb). rewrite andb_comm. reflexivity.
Qed.
Print Assumptions C07_veq_sym.

(* reflexive on values containing neither nil nor NaN *)
Theorem C07_veq_refl : forall t, nil_nan_free t = true -> t_iseq t t = true.
Proof.
  intros t N. unfold t_iseq, teq. rewrite (nil_free_not_nil t (nil_nan_free_nil_free t N)). cbn.
  apply tdeq_refl; auto.
Qed.
Print Assumptions C07_veq_refl.

(* transitive - even on all values: a nil or a NaN can only make a comparison false *)
Theorem C07_veq_trans : forall a b c, t_iseq a b = true -> t_iseq b c = true -> t_iseq a c = true.
Proof.
  intros a b c. unfold t_iseq.
  destruct (tnil a) eqn:Na, (tnil b) eqn:Nb, (tnil c) eqn:Nc; cbn; try discriminate;
    try (intros H1 H2; eapply teq_trans; eauto; fail);
    unfold teq; rewrite ?Na, ?Nb, ?Nc; cbn; try discriminate; auto.
Qed.
Print Assumptions C07_veq_trans.

(* == (registered for scalars, strings, booleans) is isEqualTo of the lower-cased operands,
   and plain isEqualTo unless both operands are strings *)
Theorem C07_eq_vs_iseq : forall a b, eqeq_defined a b = true ->
  t_eqeq a b = t_iseq (tree_lower a) (tree_lower b) /\
  (t_eqeq a b = t_iseq a b \/ exists x y, a = TStr x /\ b = TStr y).
Proof. exact eq_vs_iseq. Qed.
Print Assumptions C07_eq_vs_iseq.

(* values that compare equal hash equally - for ANY leaf hashes that hash equal floats equally
   (libstdc++ does), with the instruction-wise code hash and the order-independent HashMap hash
   of /repo commit a94a5ab (proposed_fixes/C07-02-hash-consistency.diff) *)
Theorem C07_veq_hash : forall (hnum : scalar -> Z) (hbool : bool -> Z) (hstr : list Z -> Z) (hop : Z -> list Z -> Z)
  (mix : Z -> Z -> Z) (seed : Z),
  (forall a b, feq a b = true -> hnum a = hnum b) ->
  forall a b, wf_tree a = true -> wf_tree b = true -> teq a b = true ->
  vhash hd_repaired hnum hbool hstr hop mix seed a = vhash hd_repaired hnum hbool hstr hop mix seed b.
Proof. intros. apply teq_hash; auto. Qed.
Print Assumptions C07_veq_hash.

(* ... and with the hashes of the source before that commit they do not: { 0 } and { -0 } are equal
   code whose printed texts differ (d_code.h:91); two equal HashMaps whose entries iterate in
   different orders (ops_hashmap.h:41-50) *)
Theorem C07_veq_hash_refuted_code : exists hnum hbool hstr hop mix seed a b,
  (forall x y, feq x y = true -> hnum x = hnum y) /\ teq a b = true /\
  vhash hd_as_is hnum hbool hstr hop mix seed a <> vhash hd_as_is hnum hbool hstr hop mix seed b.
Proof.
  exists w_hnum, (fun _ => 0), w_hstr, (fun _ _ => 0), w_mix, 1,
         (TCode [IPushNum (SHalf 0)]), (TCode [IPushNum SNegZero]).
  split; [exact w_hnum_feq|]. split; [reflexivity|]. vm_compute. discriminate.
Qed.
Print Assumptions C07_veq_hash_refuted_code.
Theorem C07_veq_hash_refuted_map_order : exists hnum hbool hstr hop mix seed a b,
  (forall x y, feq x y = true -> hnum x = hnum y) /\ wf_tree a = true /\ wf_tree b = true /\ teq a b = true /\
  vhash hd_as_is hnum hbool hstr hop mix seed a <> vhash hd_as_is hnum hbool hstr hop mix seed b.
Proof.
  exists w_hnum, (fun _ => 0), w_hstr, (fun _ _ => 0), w_mix, 1,
         (TMap [(TNum (SHalf 2), TNum (SHalf 4)); (TNum (SHalf 6), TNum (SHalf 8))]),
         (TMap [(TNum (SHalf 6), TNum (SHalf 8)); (TNum (SHalf 2), TNum (SHalf 4))]).
  split; [exact w_hnum_feq|]. repeat (split; [reflexivity|]). vm_compute. discriminate.
Qed.
Print Assumptions C07_veq_hash_refuted_map_order.

(* The comparison the operators run on the heap (find, in, pushBackUnique, -, isEqualTo: veq, with
   the pointer short-cut of data::equals and explicit fuel) IS the comparison of the resolved
   values for which the laws above are proved - on values without nil and without HashMaps inside
   (with HashMaps inside the two are tied by the correspondence runs only). *)
Theorem C07_heap_comparison_is_value_comparison : forall g h a b r, veq g h a b = Ok r ->
  forall f f' ta tb, freeze f h a = Ok ta -> freeze f' h b = Ok tb ->
  nil_free_t ta = true -> map_free ta = true -> r = teq ta tb.
Proof. exact veq_is_teq. Qed.
Print Assumptions C07_heap_comparison_is_value_comparison.

(* A HashMap is a finite map keyed by isEqualTo: for every history of set / deleteAt (a
   createHashMapFromArray is a sequence of sets), a table of any number of buckets in which an
   entry lives in the bucket of its key's hash answers get / in for every key, and count, as
   the reference dictionary does - for any bucket index function and any leaf hashes as above. *)
Section C07_HashMap.
  Variables (hnum : scalar -> Z) (hbool : bool -> Z) (hstr : list Z -> Z) (hop : Z -> list Z -> Z) (mix : Z -> Z -> Z) (seed : Z).
  Variable V : Type.
  Variable bidx : Z -> nat -> nat.
  Hypothesis hnum_feq : forall a b, feq a b = true -> hnum a = hnum b.
  Hypothesis bidx_lt : forall h n, (0 < n)%nat -> (bidx h n < n)%nat.
  Let H := vhash hd_repaired hnum hbool hstr hop mix seed.
  Let good (k : tree) : Prop := wf_tree k = true.

  Theorem C07_hashmap_refines_dict : forall os t es,
    represents tree V teq H bidx good t es -> Forall (hgood tree V good) os ->
    exists t', brun tree V teq H bidx t os = BOk _ t' /\
               represents tree V teq H bidx good t' (drun tree V teq es os).
  Proof.
    apply hashmap_refines_dict; auto.
    - intros a b Ga Gb. apply teq_sym; auto.
    - intros a b c. apply teq_trans.
    - intros a b Ga Gb E. apply teq_hash; auto.
  Qed.
End C07_HashMap.
Print Assumptions C07_hashmap_refines_dict.

(* keys are captured by value at insertion: the entry is stored under the key's value at that
   moment, and no later history that does not work on the map itself - whatever it does to the
   array that served as key - loses or changes it *)
Theorem C07_keys_captured_by_value : forall st m k x, Inv st ->
  o_status (step repaired st (OpMapSet m k x)) = Done -> o_diags (step repaired st (OpMapSet m k x)) = [] ->
  let st' := o_state (step repaired st (OpMapSet m k x)) in
  exists a s1 s2 s3 kv xv kt es,
    eval_opnd st m = Some (s1, VRef a) /\ eval_opnd s1 k = Some (s2, kv) /\ eval_opnd s2 x = Some (s3, xv) /\
    key_of s3 kv = Ok kt /\ nth_error (st_heap s3) a = Some (CMap es) /\
    nth_error (st_heap st') a = Some (CMap (dict_set es kt (length (st_heap s3)) xv)) /\
    forall os, untouched repaired a st' os ->
      nth_error (st_heap (run repaired st' os)) a = Some (CMap (dict_set es kt (length (st_heap s3)) xv)).
Proof. exact keys_captured_by_value. Qed.
Print Assumptions C07_keys_captured_by_value.

(* a copy of a HashMap is independent of the original (and the original of the copy) *)
Theorem C07_copy_independent : forall st n a es dst, Inv st ->
  nth_error (st_vars st) n = Some (VRef a) -> nth_error (st_heap st) a = Some (CMap es) ->
  o_status (step repaired st (OpCopy dst (OVar n))) = Done ->
  let st' := o_state (step repaired st (OpCopy dst (OVar n))) in
  exists r, nth_error (st_vars st') dst = Some (VRef r) /\ r <> a /\
            nth_error (st_heap st') r = Some (CMap es) /\ nth_error (st_heap st') a = Some (CMap es) /\
            (forall os, untouched repaired r st' os -> nth_error (st_heap (run repaired st' os)) r = Some (CMap es)) /\
            (forall os, untouched repaired a st' os -> nth_error (st_heap (run repaired st' os)) a = Some (CMap es)).
Proof. exact copy_independent. Qed.
Print Assumptions C07_copy_independent.

(* ---- non-vacuity and cases that came from the real binary *)
Definition k12 : tree := TArr [TNum (SHalf 2); TNum (SHalf 4)].
Example ex_wf : wf_tree (TMap [(k12, TStr [97]); (TNum SNegZero, TArr [TNil])]) = true. Proof. reflexivity. Qed.
Example ex_nil_in_array : t_iseq (TArr [TNil]) (TArr [TNil]) = false. Proof. reflexivity. Qed.
Example ex_zero : t_iseq (TNum (SHalf 0)) (TNum SNegZero) = true. Proof. reflexivity. Qed.
Example ex_case : t_eqeq (TStr [97]) (TStr [65]) = true /\ t_iseq (TStr [97]) (TStr [65]) = false. Proof. split; reflexivity. Qed.
Example ex_code : t_iseq (TCode [IPushNum (SHalf 0)]) (TCode [IPushNum SNegZero]) = true. Proof. reflexivity. Qed.
Example ex_map_order : t_iseq (TMap [(TNum (SHalf 2), TBool true); (TStr [97], TNil)])
                              (TMap [(TStr [97], TNil); (TNum (SHalf 2), TBool true)]) = true.
Proof. reflexivity. Qed.
(* a history on the model: _k = [1]; _m = createHashMap; _m set [_k, 5]; _k pushBack 2; _m get [1]  -> 5 *)
Example ex_key_by_value :
  let st := run repaired (init_state 2)
                [OpAssign 0 (OLit (TArr [TNum (SHalf 2)])); OpNewMap 1; OpMapSet (OVar 1) (OVar 0) (OLit (TNum (SHalf 10)));
                 OpPushBack (OVar 0) (OLit (TNum (SHalf 4)))] in
  o_result (step repaired st (OpGet (OVar 1) (OLit (TArr [TNum (SHalf 2)])))) = VNum (SHalf 10) /\
  o_result (step repaired st (OpGet (OVar 1) (OVar 0))) = VNil.
Proof. split; vm_compute; reflexivity. Qed.
