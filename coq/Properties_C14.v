(* C14 - diagnostics name the true source file and line (and column) of the culprit.
   Theorems only; proofs live in PP/ReaderProofs.v, PP/SyncProofs.v, PP/TrackerProofs.v, PP/LineSync.v.
   Models: PP/Spec.v (reference expander with provenance on every output byte and the emission rules
   of default.cpp under the defect switch d_missing_newlines), PP/Tracker.v (the SQF tokenizer's
   m_line / m_column / path bookkeeping incl. '#line', tokenizer.hpp). Both are tied to the C++ by the
   correspondence run of checks/C14.py. *)
From Coq Require Import ZArith List Bool.
Import ListNotations.
From SqfVerif Require Import PP.Spec PP.Tracker PP.ReaderProofs PP.SyncProofs PP.TrackerProofs PP.LineSync PP.TopProofs.
From SqfVerif Require Import PP.FramePos PP.FramePosProofs.
Local Open Scope Z_scope.

(* Reader: every raw newline is accounted for exactly once - as a newline character or as a hidden
   newline in front of the next character - so a character's line is its physical line
   (comment blocks, continuations, CRLF, strings, any text). *)
Theorem C14_reader_lines : forall s, lines_ok 1 (read s).
Proof. exact read_lines_ok. Qed.
Print Assumptions C14_reader_lines.

(* line_sync, repaired emission rule (swallowed newlines are answered before the next newline):
   for ANY file tree - comments, single- and multi-line defines, conditionals, includes entering and
   returning, CRLF - every output byte with provenance (f,l,c) is for the tokenizer in file f on line l.
   Hypotheses: the run reports no newline out of step (flag false: no continuation in plain text and no
   macro call spanning lines - outside C14's quantifier), and the tokenizer recognises exactly the
   '#line' texts that were written (decidable on the output; evaluated by the correspondence). *)
Theorem C14_line_sync : forall fs file content path items tbl i b f l c,
  preprocess repaired fs file content = Ok (items, tbl, false) ->
  recognises repaired (tk_init path) items = true ->
  nth_error items i = Some (OChar b (PSrc f l c)) ->
  exists tk, reported repaired path items i = Some tk /\
             tp_file (tk_pos tk) = f /\ tp_line (tk_pos tk) = l.
Proof. exact line_sync. Qed.
Print Assumptions C14_line_sync.

(* the same against the specification-side tracker, without the recognition hypothesis *)
Theorem C14_line_sync_ideal : forall fs file content items tbl i b f l c p0,
  preprocess repaired fs file content = Ok (items, tbl, false) ->
  nth_error items i = Some (OChar b (PSrc f l c)) ->
  tp_file (itrack p0 (firstn i items)) = f /\ tp_line (itrack p0 (firstn i items)) = l.
Proof. exact line_sync_ideal. Qed.
Print Assumptions C14_line_sync_ideal.

(* The byte-level tokenizer model is where the specification-side tracker is, for every output that
   passes [recognises]; with the repaired string rule the column agrees as well. *)
Theorem C14_tokenizer_agrees : forall d s, (s = true -> d_escquote_column d = false) ->
  forall items st q, agree s (tk_pos st) q -> recognises d st items = true ->
  forall i tk, nth_error (fst (fst (trackc d O st (render items) []))) (item_offset items i) = Some tk ->
  (i < length items)%nat ->
  agree s (tk_pos tk) (itrack q (firstn i items)).
Proof. exact recognises_agree. Qed.
Print Assumptions C14_tokenizer_agrees.

(* ... and the '#line n "f"' text the preprocessor writes is read back by the tokenizer model as
   file f, next line n+1, column 0, whenever the tokenizer is in normal mode in front of it (n >= 0, no
   newline in the name). What [recognises] still has to check per output is only that no string literal
   is open at such a point and that no other text looks like a '#line'. *)
Theorem C14_emitted_line_recognised : forall d st n f ctx,
  tk_mode st = TN -> 0 <= n -> ~ In NL f ->
  exists l, trackc d O st (render_item (OLine n f)) ctx = (l, mktk TN (mktp f (n + 1) 0) (tk_ub st), O).
Proof. exact emitted_line_recognised. Qed.
Print Assumptions C14_emitted_line_recognised.

(* the emission rule of the unchanged code is refuted: after the three-line #define of the witness
   the x of line 4 is reported on line 2 (DESIGN section 8) *)
Theorem C14_line_sync_refuted_as_is : exists items tbl i b f l c,
  preprocess as_is (fun _ => None) wit_file wit_define3 = Ok (items, tbl, false) /\
  nth_error items i = Some (OChar b (PSrc f l c)) /\
  l = 4 /\ tp_line (itrack (mktp wit_file 0 0) (firstn i items)) = 2.
Proof. exact line_sync_refuted_as_is. Qed.
Print Assumptions C14_line_sync_refuted_as_is.

(* column_sync: a source byte whose line reached the output one for one in front of it (no comment
   removed, nothing expanded, no continuation) is reported at its source column.
   FULL STATEMENT of the property ("the correct column for tokens on lines not produced by macro
   expansion") is stronger: it also covers lines on which a comment was removed in front of the token.
   That part is refuted for the code as it is (next theorem) and recorded as a finding. *)
Theorem C14_column_sync_partial : forall fs file content path items tbl pre b f l c post,
  preprocess repaired fs file content = Ok (items, tbl, false) ->
  recognises repaired (tk_init path) items = true ->
  items = pre ++ OChar b (PSrc f l c) :: post ->
  has_break pre = true ->
  verbatim_from f l 0 (cur_line pre ++ [OChar b (PSrc f l c)]) ->
  exists tk, reported repaired path items (length pre) = Some tk /\ tp_col (tk_pos tk) = c.
Proof. exact column_sync. Qed.
Print Assumptions C14_column_sync_partial.

(* ... and such lines exist: tokens that are neither directive nor macro, without swallowed bytes,
   are written character for character (any defect setting) *)
Theorem C14_verbatim_lines_exist : forall d file eof_line dfuel incl toks st,
  active st = true -> ts_pend st = O ->
  Forall (verbatim_tok (ts_tbl st)) toks -> hid_sum (ltoks_chars toks) = O ->
  top d file eof_line dfuel incl st 0 toks = Ok (map (src file) (ltoks_chars toks), st).
Proof. exact top_verbatim. Qed.
Print Assumptions C14_verbatim_lines_exist.

Theorem C14_column_sync_refuted_after_comment : exists items tbl i b f l c tk,
  preprocess repaired (fun _ => None) wit_file [47;42;32;99;32;42;47;32;120] = Ok (items, tbl, false) /\
  nth_error items i = Some (OChar b (PSrc f l c)) /\ c = 8 /\
  reported repaired wit_file items i = Some tk /\ tp_col (tk_pos tk) = 1.
Proof. exact column_sync_refuted_after_comment. Qed.
Print Assumptions C14_column_sync_refuted_after_comment.

Theorem C14_column_sync_refuted_doubled_quote : exists items tbl i b f l c tk,
  preprocess as_is (fun _ => None) wit_file [34;97;34;34;98;34;32;120] = Ok (items, tbl, false) /\
  nth_error items i = Some (OChar b (PSrc f l c)) /\ c = 7 /\
  reported as_is wit_file items i = Some tk /\ tp_col (tk_pos tk) = 6.
Proof. exact column_sync_refuted_doubled_quote. Qed.
Print Assumptions C14_column_sync_refuted_doubled_quote.

(* line_file_macros *)
Theorem C14_line_file_macros : forall file eof dfuel st w t rest c cs L d,
  w <> [] -> Forall wordc w ->
  ltok_chars t = c :: cs -> hid c = O ->
  lines_ok L (w ++ ltoks_chars (t :: rest)) ->
  (lookup (ts_tbl st) (bytes w) = Some (mkmacro None [] (Some BLine)) ->
     exists st2, top_word file eof (S dfuel) st w (t :: rest)
                 = Ok (map mac (dec (pc_line (last w d))), O, st2)) /\
  (lookup (ts_tbl st) (bytes w) = Some (mkmacro None [] (Some BFile)) ->
     exists st2, top_word file eof (S dfuel) st w (t :: rest)
                 = Ok (map mac (QUOTE :: file ++ [QUOTE]), O, st2)).
Proof. exact line_file_macros. Qed.
Print Assumptions C14_line_file_macros.

(* ---- runtime side: the instruction a frame names (PP/FramePos.v mirrors frame::next and frame::diag_info_from_position,
   frame.h:187-201,256-260; tied to the C++ by the 'framepos' run of checks/C14.py).  A runtime diagnostic that is not raised by an
   instruction itself, and every stack-trace entry, takes its location from a frame: *)
(* while it runs, a frame names the instruction it is executing: after k+1 steps instruction k *)
Theorem C14_frame_names_executing_instruction : forall len k,
  (k < len)%nat -> fdiag len (fafter len (S k)) = DIndex k.
Proof. exact names_executing. Qed.
Print Assumptions C14_frame_names_executing_instruction.

(* once its block has run to the end (however often it is stepped again), a frame names the block's LAST instruction: this is the
   location of the diagnostics an exit behaviour raises about the value the block left (while / waitUntil / count / select / findIf / ...) *)
Theorem C14_finished_frame_names_last_instruction : forall len m,
  (0 < len)%nat -> (len < m)%nat -> fdiag len (fafter len m) = DIndex (len - 1).
Proof. exact names_last_when_finished. Qed.
Print Assumptions C14_finished_frame_names_last_instruction.

(* whatever the number of steps: the unchecked dereference of diag_info_from_position is never reached, and what is named is an
   instruction of the frame's own set (a frame without instructions names nothing) *)
Theorem C14_frame_location_is_an_instruction : forall len m,
  fdiag len (fafter len m) <> DUB /\ (forall i, fdiag len (fafter len m) = DIndex i -> (i < len)%nat).
Proof. exact never_ub. Qed.
Print Assumptions C14_frame_location_is_an_instruction.

(* ---- non-vacuity ---- *)
(*  /* c NL c */ NL #ifdef Q NL junk NL #endif NL #include "/v/i" NL x   with i = a NL b NL  *)
Definition ex_main : list Z :=
  [47;42;32;99;10;32;99;32;42;47;10; 35;105;102;100;101;102;32;81;10; 106;117;110;107;10;
   35;101;110;100;105;102;10; 35;105;110;99;108;117;100;101;32;34;47;118;47;105;34;10; 120].
Definition ex_fs : fsys := fun p => if beq p [47;118;47;105] then Some ([47;84;47;105], [97;10;98;10]) else None.
Example ex_layout : exists items tbl,
  preprocess repaired ex_fs [109] ex_main = Ok (items, tbl, false) /\
  recognises repaired (tk_init [109]) items = true /\
  (* the x of line 7 of m, behind the include *)
  exists i tk, nth_error items i = Some (OChar 120 (PSrc [109] 7 0)) /\
               reported repaired [109] items i = Some tk /\ tk_pos tk = mktp [109] 7 0.
Proof.
  eexists. eexists. split; [vm_compute; reflexivity|]. split; [vm_compute; reflexivity|].
  exists 14%nat. eexists. split; [vm_compute; reflexivity|]. split; vm_compute; reflexivity.
Qed.

(* a block of three instructions: standing on the second one, and behind the last one *)
Example ex_frame_running : fdiag 3 (fafter 3 2) = DIndex 1.
Proof. reflexivity. Qed.
Example ex_frame_finished : fdiag 3 (fafter 3 4) = DIndex 2 /\ fdiag 3 (fafter 3 9) = DIndex 2.
Proof. split; reflexivity. Qed.
