(* C18 - C API contract: truthful return codes, complete tagged logging, reusable instances.
   About API/ApiDefs (model of src/export/sqfvm.cpp on top of the shared VM model) with the repairs proposed in
   /verif/proposed_fixes/C18-01..03; the ..._refuted theorems show the code without them.  The preprocessor and the
   parsers are parameters of a call (`front`). *)
From Coq Require Import String ZArith List Bool.
From SqfVerif Require Import Gen.ResultMap VM.VmDefs VM.VmExec VM.C04Defs API.CtlProofs API.ApiDefs API.ApiProofs.
Import ListNotations.
Local Open Scope list_scope.

(* which code a call returns, and what it means: -2 iff preprocessing failed; -3 iff it succeeded and the parser of the type
   failed; -5 iff the type is unknown; for 's' / 'a': 0 iff execute(start) reported empty (all scripts ran to their end) or ok
   (the script asked for exit) with the error flag down, -6 iff it reported runtime_error - and then the events of this very
   call contain the error and its stack trace, or the max-runtime diagnostic *)
Theorem C18_codes_truthful : forall i cd ty f code i' recs, inst_ok i -> api_call api_repaired i cd ty f = Ok (code, i', recs) ->
  match f with
  | FPpFail _ => code = preprocessing_failed
  | FParseFail _ _ =>
      if ty_parses ty then code = parsing_failed
      else if Z.eqb ty ty_p then code = result_ok else code = invalid_type
  | FOk _ _ c _ =>
      if ty_executes ty then
        exists x r1 s, execute AStart (load (a_rt i) c) = Ok (x, r1) /\ r_out r1 = s ++ r_out (a_rt i) /\
          ((code = result_ok /\ (x = REmpty \/ x = ROk) /\ r_err r1 = false) \/
           (code = result_failed /\ x = RRuntimeError /\ failure_explained s))
      else if orb (Z.eqb ty ty_1) (Z.eqb ty ty_p) then code = result_ok
      else code = invalid_type
  end.
Proof. exact codes_truthful. Qed.
Print Assumptions C18_codes_truthful.

(* every callback invocation of a call carries the user data of the instance and the call data of THIS call; the messages the
   run logged are all delivered, in order, after those of the front ends *)
Theorem C18_all_diagnostics_delivered_tagged : forall i cd ty f code i' recs, inst_ok i -> api_call api_repaired i cd ty f = Ok (code, i', recs) ->
  tagged i (CdVal cd) recs /\
  match f with
  | FOk d1 d2 c _ =>
      if ty_executes ty then
        exists x r1 s, execute AStart (load (a_rt i) c) = Ok (x, r1) /\ r_out r1 = s ++ r_out (a_rt i) /\
          map cb_sev recs = map fst d1 ++ map fst d2 ++ levels (rev s)
      else True
  | _ => True end.
Proof. exact all_diagnostics_delivered_tagged. Qed.
Print Assumptions C18_all_diagnostics_delivered_tagged.

(* whatever the API call was, every instance of the process is idle (status 0) when it returns, and the instances that were not
   addressed are untouched *)
Theorem C18_idle_after_every_call : forall w o ret recs w', world_ok w -> step api_repaired w o = Ok (ret, recs, w') ->
  world_ok w' /\
  (forall n i, nth_error (w_insts w') n = Some i -> api_status i = 0%Z) /\
  (forall h, (o = ODestroy h \/ o = OStatus h \/ (exists f, o = OLoad h f) \/ (exists cd ty f, o = OCall h cd ty f) \/ (exists cd c, o = OProbe h cd c)) ->
     forall n m, h = HInst n -> m <> n -> nth_error (w_insts w') m = nth_error (w_insts w) m).
Proof. exact idle_after_every_call. Qed.
Print Assumptions C18_idle_after_every_call.

(* a call leaves: no script (no context), the error flag down, state empty, the run flag free; config, user data and liveness as
   they were; the namespaces untouched unless a script ran.  The next run measures max_runtime from its own first clock
   reading and starts with the error flag, the recorded messages and the exit request cleared. *)
Theorem C18_only_globals_and_config_persist :
  (forall i cd ty f code i' recs, inst_ok i -> api_call api_repaired i cd ty f = Ok (code, i', recs) ->
     (r_state (a_rt i') = StEmpty /\ r_run (a_rt i') = false /\ r_ctxs (a_rt i') = [] /\ r_err (a_rt i') = false) /\ api_status i' = 0%Z /\
     a_cfg i' = a_cfg i /\ a_user i' = a_user i /\ a_live i' = a_live i /\
     (match f with FOk _ _ _ _ => if ty_executes ty then True else r_nss (a_rt i') = r_nss (a_rt i) | _ => r_nss (a_rt i') = r_nss (a_rt i) end)) /\
  (forall r c, rt_idle r ->
     let r0 := set_state (API.CtlDefs.enter (load r c)) StRunning in
     r_run_ts r0 = (r_clock r + r_tick r)%Z /\ r_err r0 = false /\ r_msgs r0 = [] /\ r_exit_req r0 = false).
Proof. split; [exact call_leaves_idle|exact budget_starts_with_the_call]. Qed.
Print Assumptions C18_only_globals_and_config_persist.

Theorem C18_load_config_codes_and_tags : forall i f code i' recs, api_load api_repaired i f = Ok (code, i', recs) ->
  (match f with CPpFail _ => code = preprocessing_failed | CParseFail _ _ => code = parsing_failed | COk _ _ _ => code = result_ok end) /\
  tagged i CdNull recs /\ a_rt i' = a_rt i /\ a_user i' = a_user i /\ a_live i' = a_live i /\
  (match f with COk _ _ cl => a_cfg i' = a_cfg i ++ cl | _ => a_cfg i' = a_cfg i end).
Proof. exact load_codes_and_tags. Qed.
Print Assumptions C18_load_config_codes_and_tags.

Theorem C18_invalid_handle_codes : forall d w h, h = HNull \/ h = HBogus ->
  (forall cd ty f, step d w (OCall h cd ty f) = Ok (instance_invalid, [], w)) /\
  (forall f, step d w (OLoad h f) = Ok (instance_invalid, [], w)) /\
  step d w (OStatus h) = Ok (instance_invalid, [], w).
Proof. exact invalid_handle_codes. Qed.
Print Assumptions C18_invalid_handle_codes.

(* the constants, the type switch and the result switches of sqfvm.cpp (as extracted from the source on this run) are the ones
   of the model, and every code documented in sqfvm.h has the value the source uses *)
Theorem C18_code_table_documented : api_tables_ok = true /\ documented_ok = true.
Proof. split; vm_compute; reflexivity. Qed.
Print Assumptions C18_code_table_documented.

(* the source carries the repairs the model assumes: no dereference of the empty optional, load_config resets the call data *)
Theorem C18_source_carries_repairs : source_repaired = true.
Proof. vm_compute. reflexivity. Qed.
Print Assumptions C18_source_carries_repairs.

(* ---------------------------------------------------------------- the code without the repairs *)
Theorem C18_pp_failure_dereferences_empty_optional_refuted : forall i cd ty d1, inst_ok i ->
  exists w, api_call api_as_is i cd ty (FPpFail d1) = UB w.
Proof. exact pp_failure_dereferences_empty_optional_refuted. Qed.
Print Assumptions C18_pp_failure_dereferences_empty_optional_refuted.

Theorem C18_load_config_keeps_stale_call_data_refuted : forall i d2 cl, a_cd i <> CdNull ->
  exists code i' r rest, api_load api_as_is i (COk [] ((1, 40001) :: d2)%Z cl) = Ok (code, i', r :: rest) /\ cb_call r = a_cd i /\ cb_call r <> CdNull.
Proof. exact load_config_keeps_stale_call_data_refuted. Qed.
Print Assumptions C18_load_config_keeps_stale_call_data_refuted.

Theorem C18_destroy_null_refuted : forall w, exists s, step api_as_is w (ODestroy HNull) = UB s.
Proof. exact destroy_null_refuted. Qed.
Print Assumptions C18_destroy_null_refuted.

(* ---------------------------------------------------------------- non-vacuity *)
Definition w0 : world := {| w_insts := []; w_clock := 0; w_tick := 1000 |}.
Definition ok_prog : code := [IPush (VNum 5); IAssign "ga"; IEnd; IGet "ga"]%string.
Definition bad_prog : code := [IPush (VArr [VNum 1]); IPush (VNum 5); IBinary "select"]%string.
Example ex_history :
  map show_op (run_ops api_repaired w0
    [OCreate 7 0; OCall (HInst 0) 11 ty_s (FOk [] [] ok_prog ""); OStatus (HInst 0);
     OCall (HInst 0) 12 ty_s (FOk [] [] bad_prog ""); OStatus (HInst 0);
     OCall (HInst 0) 13 ty_s (FPpFail [(1, 10013)%Z]); OCall HNull 1 ty_s (FPpFail [])] [])
  = ["0{}"; "0{7:11:3:M<VALUE 5>}"; "0{}"; "-6{7:12:1,7:12:0}"; "0{}"; "-2{7:13:1}"; "-1{}"]%string.
Proof. vm_compute. reflexivity. Qed.
Example ex_world_ok : world_ok w0.
Proof. constructor. Qed.
