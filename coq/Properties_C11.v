(* C11 - Execution bounds hold: max runtime per run, loop cap in unscheduled code.
   Theorems only; proofs live in VM/C11Proofs.v (and VM/Sched*.v). The model is VM/VmDefs.v + VM/VmExec.v with the
   scheduler extension VM/SchedDefs.v; it is tied to src/runtime/runtime.cpp, frame.h and ops_generic.cpp by the
   correspondence runs of checks/C11.py (virtual clock).
   Switch names: the machine's defect list may carry "empty_restart_skips_deadline" and
   "idle_scheduler_skips_deadline" (SchedDefs.sw_restart / sw_idle: the code before repo commit f22674f) and
   "while_empty_body_uncapped" (before d879b80); a switch that is ON describes the code before the repair. The shared
   model (VmDefs/VmExec) is SchedDefs with the first two switches off; the positive theorems are for the switches off,
   the switch-on settings only carry the `_refuted` witnesses. *)
From Coq Require Import String ZArith List Bool Lia Arith.
Import ListNotations.
Set Warnings "-abstract-large-number".
From SqfVerif Require Import Gen.DiagCodes Gen.Consts VM.VmDefs VM.VmExec VM.SchedDefs VM.SchedOps VM.SchedBase VM.SchedIter VM.SchedEquiv VM.C11Proofs.
Local Open Scope list_scope.

(* ------------------------------------------------------------------ the extension is the shared model *)
(* With both switches off, SchedDefs.execute2 is VmExec.execute (ghost counters and visit logs erased): the
   theorems below, stated on execute_sw / do_iter2 / frame_next2 with the switches off, are theorems about the
   shared model. *)
Theorem C11_extension_is_shared_model : forall a r,
  defect r sw_restart = false -> defect r sw_idle = false ->
  map_res (fun '(x, r, _) => (x, r)) (execute2 a r) = execute a r.
Proof. exact extension_is_shared_model. Qed.
Print Assumptions C11_extension_is_shared_model.
Theorem C11_do_iter_is_shared : forall r, map_res erase_iter (do_iter2 false r) = do_iter r.
Proof. exact do_iter2_shared. Qed.
Print Assumptions C11_do_iter_is_shared.

(* ------------------------------------------------------------------ the time limit *)
(* deadline_fires: one iteration of the execute_do loop (any switch setting). The executing script has an
   instruction due (or an empty loop body went round), a limit is configured and the clock value read exceeds
   run start + limit: the iteration returns runtime_error, MaximumRuntimeReached (fatal, 60002) is the newest log
   entry, exit is requested, no error state is left behind. *)
Theorem C11_deadline_fires : forall b r i c fr r1 c1 ins,
  r_exit_req r = false -> r_active r = Some i -> nth_error (r_ctxs r) i = Some c ->
  c_suspended c = false -> c_frames c <> [] -> r_state r = StRunning ->
  frame_next2 b frame_fuel r c = Ok (fr, r1, c1) -> r_err r1 = false ->
  (fr = F2Restarted \/ (fr = F2Ok /\ current_instr c1 = Some ins)) ->
  r_max_runtime r <> 0%Z -> (r_max_runtime r + r_run_ts r < r_clock r1 + r_tick r)%Z ->
  exists r', do_iter2 b r = Ok (Return2 RRuntimeError r') /\
    r_exit_req r' = true /\ r_err r' = false /\ r_msgs r' = [] /\
    hd_error (r_out r') = Some (EDiag (fst d_MaximumRuntimeReached) (snd d_MaximumRuntimeReached)).
Proof. exact deadline_fires. Qed.
Print Assumptions C11_deadline_fires.

(* Every unit of work is preceded by that test: if an iteration executed an instruction or went round an empty
   loop body, the clock value read just before was within the limit (and the clock moved by at least one tick). *)
Theorem C11_no_work_after_the_limit : forall b r r' i c,
  do_iter2 b r = Ok (Executed2 r') \/ do_iter2 b r = Ok (Restarted2 r') ->
  r_active r = Some i -> nth_error (r_ctxs r) i = Some c ->
  r_max_runtime r <> 0%Z -> (0 <= r_tick r)%Z ->
  (r_clock r + r_tick r <= r_max_runtime r + r_run_ts r)%Z /\ (r_clock r + r_tick r <= r_clock r')%Z.
Proof. exact unit_within_limit. Qed.
Print Assumptions C11_no_work_after_the_limit.

(* A run (action start, any switch setting) that was cut by the time limit is reported as failed, the diagnostic is
   in the log, and the VM is left empty: no contexts, no active context, state empty, not running. *)
Theorem C11_run_cut_by_limit : forall b1 b2 r x r' ps,
  execute_sw b1 b2 AStart r = Ok (x, r', ps) -> r_run r = false -> r_exit_req r' = true ->
  x = RRuntimeError /\ r_ctxs r' = [] /\ r_active r' = None /\ r_state r' = StEmpty /\ r_run r' = false /\
  In (EDiag (fst d_MaximumRuntimeReached) (snd d_MaximumRuntimeReached)) (r_out r').
Proof. exact run_cut_by_limit. Qed.
Print Assumptions C11_run_cut_by_limit.

(* "Whatever the scripts do" (repaired scheduler): the units of work of a run - executed instructions, rounds of
   empty loop bodies, visits of sleeping scripts - each start with a passed test and take at least one tick. A run
   that starts on an empty VM with limit m and a clock advancing by tick > 0 per query performs at most m / tick
   of them; the next test fails and the run is cut (C11_deadline_fires, C11_run_cut_by_limit). *)
Theorem C11_run_work_bounded : forall b1 r x r' ps,
  execute_sw b1 false AStart r = Ok (x, r', ps) -> r_run r = false -> r_state r = StEmpty ->
  (0 < r_max_runtime r)%Z -> (0 < r_tick r)%Z ->
  (Z.of_nat (total_units ps) * r_tick r <= r_max_runtime r)%Z.
Proof. exact fresh_run_work_bounded. Qed.
Print Assumptions C11_run_work_bounded.

(* the same for a run that continues on a halted VM: measured from that run's start *)
Theorem C11_run_work_bounded_general : forall b1 r x r' ps,
  execute_sw b1 false AStart r = Ok (x, r', ps) -> r_run r = false ->
  r_max_runtime r <> 0%Z -> (0 < r_tick r)%Z ->
  let r0 := begin_run_if_empty (set_run r true) in
  total_units ps = 0 \/ (r_clock r0 + Z.of_nat (total_units ps) * r_tick r <= r_max_runtime r + r_run_ts r0)%Z.
Proof. exact run_work_bounded. Qed.
Print Assumptions C11_run_work_bounded_general.

(* deadline_measured_from_run_start: the first executing action on an empty VM takes the start of the run from
   the clock at that moment - whatever m_runtime_timestamp (the age of the VM) is - ... *)
Theorem C11_deadline_measured_from_run_start : forall r,
  r_state r = StEmpty ->
  let r0 := begin_run_if_empty (set_run r true) in
  r_run_ts r0 = (r_clock r + r_tick r)%Z /\ r_clock r0 = (r_clock r + r_tick r)%Z /\
  (forall ts, r_run_ts (begin_run_if_empty (set_run (set_timestamp r ts) true)) = r_run_ts r0).
Proof. exact deadline_measured_from_run_start. Qed.
Print Assumptions C11_deadline_measured_from_run_start.

(* ... it does not change while the run executes ... *)
Theorem C11_run_start_is_constant : forall b1 b2 r x r' ps,
  execute_sw b1 b2 AStart r = Ok (x, r', ps) -> r_run r = false ->
  r_run_ts r' = r_run_ts (begin_run_if_empty (set_run r true)).
Proof. exact run_ts_constant. Qed.
Print Assumptions C11_run_start_is_constant.

(* ... and the verdict of the test depends on the limit, the start of the run and the clock only. *)
Theorem C11_deadline_test_footprint : forall r r',
  r_max_runtime r = r_max_runtime r' -> r_run_ts r = r_run_ts r' -> r_clock r = r_clock r' -> r_tick r = r_tick r' ->
  fst (deadline_test r) = fst (deadline_test r').
Proof. exact deadline_test_footprint. Qed.
Print Assumptions C11_deadline_test_footprint.
Theorem C11_test_within_limit_passes : forall r0 r, r_run_ts r = r_clock r0 -> r_max_runtime r <> 0%Z ->
  (r_clock r + r_tick r <= r_clock r0 + r_max_runtime r)%Z -> fst (deadline_test r) = false.
Proof. exact test_within_limit_passes. Qed.
Print Assumptions C11_test_within_limit_passes.

(* ------------------------------------------------------------------ the code before the repair (switches on) *)
Definition prog_for_step0 : list stmt :=
  [SExpr (EBinary "do" (EBinary "step" (EBinary "to" (EBinary "from" (EUnary "for" (EStr "_i")) (ENum 0)) (ENum 1)) (ENum 0)) (ECode []))].
Definition prog_spawn_sleep : list stmt :=
  [SExpr (EBinary "spawn" (ENum 0) (ECode [SExpr (EUnary "sleep" (ENum 1))]))].
Definition machine (defects:list string) (max_us tick_us:Z) (max_loop:nat) (p:list stmt) : rt :=
  load (create_rt defects max_us tick_us max_loop slice_length) (compile_block p).

(* frame::next restarted an empty loop body by itself: `for "_i" from 0 to 1 step 0 do {}` never comes back to
   execute_do, so no limit can stop it *)
Theorem C11_empty_restart_skips_deadline_refuted :
  execute2 AStart (machine [sw_restart] 1000 1 10000 prog_for_step0) = Hang "frame::next does not return".
Proof. vm_compute. reflexivity. Qed.
Print Assumptions C11_empty_restart_skips_deadline_refuted.

(* the scheduler did not look at the limit while every script sleeps: limit 0.1 s, `0 spawn { sleep 1 }`: the run
   ends only after the wake-up, far beyond the limit *)
Theorem C11_idle_scheduler_skips_deadline_refuted :
  exists x r' ps, execute2 AStart (machine [sw_idle] 100000 10000 10000 prog_spawn_sleep) = Ok (x, r', ps) /\
    (r_run_ts r' + r_max_runtime r' + 50 * r_tick r' < r_clock r')%Z.
Proof.
  destruct (execute2 AStart (machine [sw_idle] 100000 10000 10000 prog_spawn_sleep)) as [[[x r'] ps]| | |] eqn:E;
  vm_compute in E; try discriminate.
  exists x, r', ps. split; auto. inversion E; subst. vm_compute. reflexivity.
Qed.
Print Assumptions C11_idle_scheduler_skips_deadline_refuted.

(* repaired: both runs are cut at the first test after the limit, reported, and the VM is empty *)
Example ex_for_step0_repaired :
  match execute2 AStart (machine [] 1000 1 10000 prog_for_step0) with
  | Ok (x, r', _) => x = RRuntimeError /\ r_ctxs r' = [] /\ r_state r' = StEmpty /\
                     (r_clock r' <= r_run_ts r' + r_max_runtime r' + 2 * r_tick r')%Z /\
                     hd_error (r_out r') = Some (EDiag 0 60002)
  | _ => False end.
Proof. vm_compute. repeat split; discriminate. Qed.
Example ex_spawn_sleep_repaired :
  match execute2 AStart (machine [] 100000 10000 10000 prog_spawn_sleep) with
  | Ok (x, r', _) => x = RRuntimeError /\ r_ctxs r' = [] /\ r_state r' = StEmpty /\
                     (r_clock r' <= r_run_ts r' + r_max_runtime r' + 2 * r_tick r')%Z /\
                     hd_error (r_out r') = Some (EDiag 0 60002)
  | _ => False end.
Proof. vm_compute. repeat split; discriminate. Qed.

(* a VM that is much older than its limit still executes a later run normally (limit 1000, the VM is 100000 old) *)
Definition prog_two_marks : list stmt := [SExpr (EUnary "diag_log" (ENum 1)); SExpr (EUnary "diag_log" (ENum 2))].
Example ex_old_vm_runs :
  let m := load (set_clock (create_rt [] 1000 1 10000 slice_length) 100000) (compile_block prog_two_marks) in
  match execute2 AStart m with
  | Ok (x, r', _) => x = REmpty /\ r_state r' = StEmpty /\
                     rev (r_out r') = [EDiag 3 60019; EMark "1"; EDiag 3 60019; EMark "2"; EDiag 3 60095; EMark "VALUE nil"]
  | _ => False end.
Proof. vm_compute. repeat split. Qed.

(* ------------------------------------------------------------------ the iteration cap of while *)
(* while_cap: in unscheduled code, with cap mx > 0, a while loop - whatever its condition and body do to the
   machine between the calls of its behaviour, including an empty body - begins at most mx iterations.
   wsteps: any history of calls of the loop's behaviour that let the loop go on. *)
Theorem C11_while_cap : forall mx cond body l b2,
  0 < mx -> wsteps false mx (BWhile 0 WCond cond body) l b2 -> iterations l <= mx.
Proof. exact while_cap. Qed.
Print Assumptions C11_while_cap.

Lemma default_max_loop_pos : 0 < default_max_loop.
Proof. apply Nat.ltb_lt. vm_compute. reflexivity. Qed.
(* ... with the default of runtime_conf (Gen.Consts, read from runtime.h) *)
Theorem C11_while_cap_default : forall cond body l b2,
  wsteps false default_max_loop (BWhile 0 WCond cond body) l b2 -> iterations l <= default_max_loop.
Proof. intros. eapply while_cap; eauto. exact default_max_loop_pos. Qed.
Print Assumptions C11_while_cap_default.

(* the invariant behind it: the counter goes up by one with every completed iteration - at the end of the body,
   or when the condition held and there is no body - and the call that lifts it to the cap ends the loop *)
Theorem C11_while_counter_reaches_cap : forall loops m cond body r c br b1 r' c',
  enact (BWhile loops m cond body) r c = Ok (br, b1, r', c') ->
  defect r sw_while = false -> c_can_suspend c = false -> 0 < r_max_loop r ->
  (m = WCode \/ (m = WCond /\ body = [] /\ exists cx, pop_value c = Some (VBool true, cx))) ->
  exists m', b1 = BWhile (S loops) m' cond body /\ (r_max_loop r <= S loops -> br = BrOk).
Proof. exact while_counter_reaches_cap. Qed.
Print Assumptions C11_while_counter_reaches_cap.

(* the code before commit d879b80 (switch on): with an empty body the counter never moved - any number of
   iterations although the cap is 1 *)
Theorem C11_while_empty_body_uncapped_refuted :
  forall k, exists l b2, wsteps true 1 (BWhile 0 WCond [IPush (VBool true)] []) l b2 /\ iterations l = k.
Proof. exact while_empty_body_uncapped_refuted. Qed.
Print Assumptions C11_while_empty_body_uncapped_refuted.

(* non-vacuity on whole programs: `private _i = 0; while { _i = _i + 1; _i < 10 } do {}; diag_log _i` with cap 2:
   repaired prints 2, the old code printed 10; with a body the cap always held *)
Definition prog_while (body:list stmt) : list stmt :=
  [SLocal "_i" (ENum 0);
   SExpr (EBinary "do" (EUnary "while" (ECode [SAssign "_i" (EBinary "+" (EVar "_i") (ENum 1)); SExpr (EBinary "<" (EVar "_i") (ENum 10))])) (ECode body));
   SExpr (EUnary "diag_log" (EVar "_i"))].
Example ex_while_empty_capped : run_final (machine [] 0 0 2 (prog_while [])) = "-1:0:3:60019,M<2>,3:60095,M<VALUE nil>,"%string.
Proof. vm_compute. reflexivity. Qed.
Example ex_while_empty_old : run_final (machine [sw_while] 0 0 2 (prog_while [])) = "-1:0:3:60019,M<10>,3:60095,M<VALUE nil>,"%string.
Proof. vm_compute. reflexivity. Qed.
Example ex_while_body_capped : run_final (machine [] 0 0 2 (prog_while [SExpr (ENum 7)])) = "-1:0:3:60019,M<2>,3:60095,M<VALUE nil>,"%string.
Proof. vm_compute. reflexivity. Qed.

(* the model's waitUntil cap is the one in ops_generic.cpp (Gen.Consts) *)
Example ex_waituntil_cap : waituntil_cap = waituntil_cap_src.
Proof. vm_compute. reflexivity. Qed.
