(* C06, code half - snippet for Properties_C06.v (contributed by the `syntax` area; proofs in Syntax/CodeRoundtrip.v) *)
From Coq Require Import ZArith List Bool Arith.
Import ListNotations.
From SqfVerif Require Import Syntax.SyntaxDefs Syntax.LexProofs Syntax.CodeRoundtrip Syntax.ParsePrintGen Syntax.PrettyRoundtrip Syntax.PrettySpelling Syntax.ParseSound Syntax.LexIdem.
From SqfVerif Require Num.NumDefs.

(* str of code: for every registry and every well-formed block ss with compiled code c = postorder_block ss,
   the model of `str` (instruction::reconstruct + d_code::to_string_sqf) returns a text; if every token of that
   text is spelled so that it reads as itself (names are lexable; literals are printed as literals of their
   kind by show_lit - the number/string half of C06), the text is `{ ... }` and compiles back, for all
   sufficiently large fuel, to one code value whose instructions are those of c with every literal replaced
   by its printed form (so: instruction-for-instruction equal once show_lit preserves literal values). *)
Theorem C06_code_roundtrip : forall (R:registry) (d:defects) (show_lit:lit -> lit) (ss:list stmt),
  show_kind_ok show_lit -> wf_block R ss ->
  exists ps, reconstruct show_lit (postorder_block ss) = Some ps /\
    (toks_ok ps ->
     exists f0, forall f, (f0 <= f)%nat ->
       exists ss', parse_text d R f (pieces_text ps) = FOk [SExpr (Code ss')] /\
                   compile_block ss' = Some (map (mapl_i show_lit) (postorder_block ss))).
Proof. exact code_roundtrip. Qed.
Print Assumptions C06_code_roundtrip.

(* the CLI pretty printer as it stands in the repository (no parentheses): refuted by `(a + b) * c` *)
Theorem C06_pretty_roundtrip_refuted :
  exists R s p p' c c',
    (forall f, (100 <= f)%nat -> parse_text as_is R f s = FOk p) /\ compile_block p = Some c /\
    (forall f, (100 <= f)%nat -> parse_text as_is R f (pieces_text (pretty_asis_program p)) = FOk p') /\ compile_block p' = Some c' /\
    c <> c'.
Proof. exact pretty_roundtrip_refuted. Qed.
Print Assumptions C06_pretty_roundtrip_refuted.

(* the CLI pretty printer as repaired (sqf_formatter.cpp after 382ec7b, model SyntaxDefs.pretty_program): for EVERY
   registry and every well-formed program ss as the parser returns it (no Par nodes: the parser drops source
   parentheses, parser.y:299), if every token of the printed text is spelled so that it reads as itself (the
   formatter writes the tokens of the source, operator names in lower case and `$ff` as `0xff`), then for all
   sufficiently large fuel the printed text - line breaks, indentation, `{}` / `{ a; b; }` blocks and the
   parentheses the formatter emits - is parsed to the program itself up to that respelling (pnorm: names of unary
   and binary operators lowered, hexnorm on literals), and that program compiles to the instruction sequence of ss
   with every `$` hex literal spelled `0x`.  Proof: the tokens of the printed text are the documented reading
   (ParsePrintGen.prg, layout per block) of a tree that carries a Par node where the formatter writes
   parentheses the reading does not need (`if (x)`, `! (x)`); the parentheses it writes around binary operands
   are exactly the minimal ones; then parse o print = id. *)
Theorem C06_pretty_roundtrip : forall (R:registry) (d:defects) (ss:list stmt),
  wf_block R ss -> forallb noparb_stmt ss = true -> toks_ok (pretty_program ss) ->
  exists f0, forall f, (f0 <= f)%nat ->
    parse_text d R f (pieces_text (pretty_program ss)) = FOk (map pnorm_stmt ss) /\
    exists c, compile_block ss = Some c /\ compile_block (map pnorm_stmt ss) = Some (map (mapl_i hexnorm) c).
Proof. exact pretty_roundtrip. Qed.
Print Assumptions C06_pretty_roundtrip.

(* the same with the spelling hypothesis on the INPUT: every token of the program reads as itself (spelled_block: each
   operator name, variable name and literal of ss, lexed on its own, is that token - what holds for a tree that came
   out of the parser).  The formatter lowers the names of unary and binary operators and respells `$` literals; a
   token that reads as itself still does afterwards (PrettySpelling.tok_ok_name_lower, tok_ok_hexnorm). *)
Theorem C06_pretty_roundtrip_spelled : forall (R:registry) (d:defects) (ss:list stmt),
  wf_block R ss -> forallb noparb_stmt ss = true -> spelled_block ss ->
  exists f0, forall f, (f0 <= f)%nat ->
    parse_text d R f (pieces_text (pretty_program ss)) = FOk (map pnorm_stmt ss) /\
    exists c, compile_block ss = Some c /\ compile_block (map pnorm_stmt ss) = Some (map (mapl_i hexnorm) c).
Proof. exact pretty_roundtrip_spelled. Qed.
Print Assumptions C06_pretty_roundtrip_spelled.

(* the statement of the property: a program without `$` literals compiles to the very same instruction sequence
   after pretty printing *)
Theorem C06_pretty_roundtrip_same : forall (R:registry) (d:defects) (ss:list stmt),
  wf_block R ss -> forallb noparb_stmt ss = true -> toks_ok (pretty_program ss) ->
  forallb nodollar_i (postorder_block ss) = true ->
  exists f0, forall f, (f0 <= f)%nat ->
    exists ss', parse_text d R f (pieces_text (pretty_program ss)) = FOk ss' /\ compile_block ss' = compile_block ss.
Proof. exact pretty_roundtrip_same. Qed.
Print Assumptions C06_pretty_roundtrip_same.

(* ... and with `$` literals the two sequences differ in the spelling of those literals only, which denote the same
   number: the literal conversion of the number half (NumDefs.lit_hex, sqf_parser.cpp:98-120) reads `0x..` as it
   reads `$..` *)
Theorem C06_pretty_hex_respelling : forall l,
  match l, hexnorm l with
  | LHex s, LHex s' => NumDefs.lit_hex s' = NumDefs.lit_hex s
  | _, l' => l' = l
  end.
Proof. exact hexnorm_value. Qed.
Print Assumptions C06_pretty_hex_respelling.

(* what the proof rests on, C01.2 with the separator layout chosen per statement list (`layf ss`) instead of once:
   every such rendering of a well-formed program is parsed back to the program (Par nodes erased).  The theorem
   of C01 is the instance `layf = fun _ => lay` (ParsePrintGen.parse_print_block_of_gen). *)
Theorem C06_parse_print_layout_per_block : forall (R:registry) (d:defects) (layf:list stmt -> layout) (ss:list stmt),
  wf_block R ss ->
  exists f0, forall f, (f0 <= f)%nat -> parse_toks d f (printg_toks R layf ss) = POk (map strip_stmt ss).
Proof. exact parse_printg_block. Qed.
Print Assumptions C06_parse_print_layout_per_block.

(* non-vacuity: a program with both operator classes, forced and minimal parentheses, nested and empty blocks, an
   array, a folded sign, an upper-case name and a `$` literal meets the hypotheses, and the conclusion computes *)
Example C06_pretty_hypotheses_satisfiable :
  ex_prog <> [] /\ wf_block ex_R ex_prog /\ forallb noparb_stmt ex_prog = true /\ toks_ok (pretty_program ex_prog).
Proof. exact ex_hyps. Qed.
Example C06_pretty_input_spelled : spelled_block ex_prog.
Proof.
  unfold spelled_block, ex_prog. intros s [<-|[<-|[]]]; cbn [spelled_stmt spelled fold_right]; repeat split; vm_compute; reflexivity.
Qed.
Example C06_pretty_roundtrip_computed :
  parse_text as_is ex_R 200 ex_src = FOk ex_prog /\
  parse_text as_is ex_R 200 (pieces_text (pretty_program ex_prog)) = FOk (map pnorm_stmt ex_prog) /\
  compile_block (map pnorm_stmt ex_prog) = option_map (map (mapl_i hexnorm)) (compile_block ex_prog) /\
  compile_block ex_prog <> None.
Proof. vm_compute. repeat split; discriminate. Qed.

(* ---------------------------------------------------------------- over SOURCE TEXTS (Syntax/ParseSound.v) *)
(* What the parser model returns for an accepted text, for every registry, text and fuel: a tree without Par
   nodes; and - if every token of the text reads as itself (src_spelled) and every assignment target is a
   variable (tv_stmt) - a spelled tree which, when no name is both unary and nular except the unary+nular names
   without binary overload that the parser as it stands refuses as operands (reg_ok), is well formed for R.
   None of the three side conditions can be dropped: C06_parse_spelled_refuted, C06_parse_wf_refuted. *)
Theorem C06_parse_text_sound : forall (d:defects) (R:registry) (f:nat) (s:text) (ss:list stmt),
  parse_text d R f s = FOk ss ->
  forallb noparb_stmt ss = true /\
  (src_spelled s -> forallb tv_stmt ss = true -> spelled_block ss /\ (reg_ok d R -> wf_block R ss)).
Proof. exact parse_text_sound. Qed.
Print Assumptions C06_parse_text_sound.

(* the pretty printer, end to end: for every text the parser model accepts (under the side conditions), the
   formatter's output is accepted too, as the same program up to the respelling, and compiles to the same
   instruction sequence up to `$` -> `0x` *)
Theorem C06_pretty_roundtrip_text : forall (d:defects) (R:registry) (f1:nat) (s:text) (ss:list stmt),
  parse_text d R f1 s = FOk ss -> src_spelled s -> forallb tv_stmt ss = true -> reg_ok d R ->
  exists f0, forall f, (f0 <= f)%nat ->
    parse_text d R f (pieces_text (pretty_program ss)) = FOk (map pnorm_stmt ss) /\
    exists c, compile_block ss = Some c /\ compile_block (map pnorm_stmt ss) = Some (map (mapl_i hexnorm) c).
Proof. exact pretty_roundtrip_text. Qed.
Print Assumptions C06_pretty_roundtrip_text.

(* str of the compiled code, end to end *)
Theorem C06_code_roundtrip_text : forall (d:defects) (R:registry) (show_lit:lit -> lit) (f1:nat) (s:text) (ss:list stmt),
  parse_text d R f1 s = FOk ss -> src_spelled s -> forallb tv_stmt ss = true -> reg_ok d R -> show_kind_ok show_lit ->
  exists c, compile_block ss = Some c /\
  exists ps, reconstruct show_lit c = Some ps /\
    (toks_ok ps ->
     exists f0, forall f, (f0 <= f)%nat ->
       exists ss', parse_text d R f (pieces_text ps) = FOk [SExpr (Code ss')] /\
                   compile_block ss' = Some (map (mapl_i show_lit) c)).
Proof. exact code_roundtrip_text. Qed.
Print Assumptions C06_code_roundtrip_text.

(* without the side conditions the statement over all accepted texts is false for the formatter (confirmed on the
   binary): `"a` is printed `"a;` (the string swallows the separator), `1 = 2` is printed `2;` (the target of an
   assignment to a non-variable is dropped, sqf_formatter.cpp:119), `1e+ 2` is printed `1e + 2` (rejected) *)
Theorem C06_pretty_roundtrip_text_refuted :
  (exists p p' c c', (forall f, (100 <= f)%nat -> parse_text as_is ex_R f w_string = FOk p) /\ compile_block p = Some c /\
     (forall f, (100 <= f)%nat -> parse_text as_is ex_R f (pieces_text (pretty_program p)) = FOk p') /\ compile_block p' = Some c' /\ c <> c') /\
  (exists p p' c c', (forall f, (100 <= f)%nat -> parse_text as_is ex_R f w_target = FOk p) /\ compile_block p = Some c /\
     (forall f, (100 <= f)%nat -> parse_text as_is ex_R f (pieces_text (pretty_program p)) = FOk p') /\ compile_block p' = Some c' /\ c <> c') /\
  (exists p, (forall f, (100 <= f)%nat -> parse_text as_is ex_R f w_number = FOk p) /\
     (forall f, (100 <= f)%nat -> parse_text as_is ex_R f (pieces_text (pretty_program p)) = FParseError)).
Proof. exact pretty_roundtrip_text_refuted. Qed.
Print Assumptions C06_pretty_roundtrip_text_refuted.

Theorem C06_parse_spelled_refuted : exists R s ss, parse_text as_is R 100 s = FOk ss /\ ~ src_spelled s /\ ~ spelled_block ss.
Proof. exact parse_spelled_refuted. Qed.
Print Assumptions C06_parse_spelled_refuted.

Theorem C06_parse_wf_refuted :
  (exists ss, parse_text as_is ex_R 100 w_target = FOk ss /\ src_spelled w_target /\ reg_ok as_is ex_R /\ ~ wf_block ex_R ss) /\
  (exists ss, parse_text as_is R_bun 100 w_nular = FOk ss /\ src_spelled w_nular /\ forallb tv_stmt ss = true /\ ~ wf_block R_bun ss).
Proof. exact parse_wf_refuted. Qed.
Print Assumptions C06_parse_wf_refuted.

(* non-vacuity on a real text: ex_src meets the side conditions, and the conclusion computes
   (C06_pretty_roundtrip_computed above is the computed round trip of the same text) *)
Example C06_text_hypotheses_satisfiable :
  parse_text as_is ex_R 200 ex_src = FOk ex_prog /\ src_spelled ex_src /\ forallb tv_stmt ex_prog = true /\ reg_ok as_is ex_R.
Proof. exact ex_text_hyps. Qed.
Example C06_text_roundtrip_computed :
  match parse_text as_is ex_R 200 ex_src with
  | FOk p => parse_text as_is ex_R 200 (pieces_text (pretty_program p)) = FOk (map pnorm_stmt p) /\
             compile_block (map pnorm_stmt p) = option_map (map (mapl_i hexnorm)) (compile_block p) /\ compile_block p <> None
  | _ => False
  end.
Proof. vm_compute. repeat split; discriminate. Qed.

(* ---------------------------------------------------------------- the lexer is idempotent on its tokens (Syntax/LexIdem.v) *)
(* Every token the lexer model produces from ANY text reads back as itself, under a decidable condition on the token
   that only bites for strings (terminated: str_closed) and numbers (num_relex: the computed re-lex of the token
   text - the dangling-`e` shape `1e` of `1e+ 2` fails it; not characterised by shape).  Names, keywords, operators,
   brackets, separators, `=` and hexadecimal numbers need no condition. *)
Theorem C06_lex_token_idempotent : forall (s:text) (t:rtok) (rest:text),
  lex1 s = L1Tok t rest -> well_term t = true -> tok_ok t.
Proof. exact lex1_idem. Qed.
Print Assumptions C06_lex_token_idempotent.

(* so "every token of the text reads as itself" is the decidable text_well_terminated (both directions) *)
Theorem C06_well_terminated_spelled : forall s, text_well_terminated s = true -> src_spelled s.
Proof. exact well_terminated_spelled. Qed.
Print Assumptions C06_well_terminated_spelled.
Theorem C06_spelled_well_terminated : forall s, src_spelled s -> text_well_terminated s = true.
Proof. exact spelled_well_terminated. Qed.
Print Assumptions C06_spelled_well_terminated.

(* the end-to-end theorems with decidable conditions on the text and the parsed tree only *)
Theorem C06_pretty_roundtrip_text_dec : forall (d:defects) (R:registry) (f1:nat) (s:text) (ss:list stmt),
  parse_text d R f1 s = FOk ss -> text_well_terminated s = true -> forallb tv_stmt ss = true -> reg_ok d R ->
  exists f0, forall f, (f0 <= f)%nat ->
    parse_text d R f (pieces_text (pretty_program ss)) = FOk (map pnorm_stmt ss) /\
    exists c, compile_block ss = Some c /\ compile_block (map pnorm_stmt ss) = Some (map (mapl_i hexnorm) c).
Proof. exact pretty_roundtrip_text_dec. Qed.
Print Assumptions C06_pretty_roundtrip_text_dec.

Theorem C06_code_roundtrip_text_dec : forall (d:defects) (R:registry) (show_lit:lit -> lit) (f1:nat) (s:text) (ss:list stmt),
  parse_text d R f1 s = FOk ss -> text_well_terminated s = true -> forallb tv_stmt ss = true -> reg_ok d R -> show_kind_ok show_lit ->
  exists c, compile_block ss = Some c /\
  exists ps, reconstruct show_lit c = Some ps /\
    (toks_ok ps ->
     exists f0, forall f, (f0 <= f)%nat ->
       exists ss', parse_text d R f (pieces_text ps) = FOk [SExpr (Code ss')] /\
                   compile_block ss' = Some (map (mapl_i show_lit) c)).
Proof. exact code_roundtrip_text_dec. Qed.
Print Assumptions C06_code_roundtrip_text_dec.

(* the worked text passes the decidable condition; the two lexical witnesses of the refutation fail it, the
   assignment witness passes it (it is excluded by tv_stmt) *)
Example C06_text_well_terminated_computed :
  text_well_terminated ex_src = true /\ text_well_terminated w_string = false /\ text_well_terminated w_number = false /\
  text_well_terminated w_target = true.
Proof. vm_compute. repeat split. Qed.
