(* C06, code half - snippet for Properties_C06.v (contributed by the `syntax` area; proofs in Syntax/CodeRoundtrip.v) *)
From Coq Require Import ZArith List Bool Arith.
Import ListNotations.
From SqfVerif Require Import Syntax.SyntaxDefs Syntax.LexProofs Syntax.CodeRoundtrip.

(* str of code: for every registry and every well-formed block ss with compiled code c = postorder_block ss,
   the model of `str` (instruction::reconstruct + d_code::to_string_sqf) returns a text; if every token of that
   text is spelled so that it reads as itself (names are lexable; literals are printed as literals of their
   kind by show_lit - the number/string half of C06), the text is `{ ... }` and compiles back, for all
   sufficiently large fuel, to one code value whose instructions are those of c with every literal replaced
   by its printed form (so: instruction-for-instruction equal once show_lit preserves literal values). *)
Theorem C06_code_roundtrip : forall (R:registry) (d:defects) (show_lit:lit -> lit) (ss:list stmt),
  show_kind_ok show_lit -> wf_block R ss ->
  exists ps, reconstruct show_lit (postorder_block ss) = Some ps /\
    (toks_ok ps ->
     exists f0, forall f, (f0 <= f)%nat ->
       exists ss', parse_text d R f (pieces_text ps) = FOk [SExpr (Code ss')] /\
                   compile_block ss' = Some (map (mapl_i show_lit) (postorder_block ss))).
Proof. exact code_roundtrip. Qed.
Print Assumptions C06_code_roundtrip.

(* the CLI pretty printer as it stands in the repository (no parentheses): refuted by `(a + b) * c` *)
Theorem C06_pretty_roundtrip_refuted :
  exists R s p p' c c',
    (forall f, (100 <= f)%nat -> parse_text as_is R f s = FOk p) /\ compile_block p = Some c /\
    (forall f, (100 <= f)%nat -> parse_text as_is R f (pieces_text (pretty_asis_program p)) = FOk p') /\ compile_block p' = Some c' /\
    c <> c'.
Proof. exact pretty_roundtrip_refuted. Qed.
Print Assumptions C06_pretty_roundtrip_refuted.
