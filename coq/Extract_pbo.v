From Coq Require Import ZArith List ExtrOcamlBasic.
From SqfVerif Require Import PBO.PboDefs.
Extraction Language OCaml.
Extraction "../ocaml/gen/pbo_model.ml" open attributes files attribute read_entry pack listing method_of len.
