From Coq Require Import ZArith List String ExtrOcamlBasic.
From SqfVerif Require Import VM.VmDefs VM.VmExec.
Extraction Language OCaml.
Extraction "../ocaml/gen/vm_model.ml" create_rt load compile_block print_block show_code step_trace run_final execute
  observe_step observe_final.
