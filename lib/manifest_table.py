"""MANIFEST.json is rendered by bin/mkmanifest from checks/<id>.meta.json fragments
(keys: category, technique, text, note, design).  A property without a fragment is listed
under not_applicable with the reason in NOT_YET (or the default)."""
import glob, json, os
HERE = os.path.dirname(os.path.dirname(os.path.abspath(__file__)))
import subprocess
CLAIMED = {}
# only checks whose files are committed are claimed (contributors' work in progress is not)
_tracked = set(subprocess.run(["git", "-C", HERE, "ls-files", "checks"], stdout=subprocess.PIPE).stdout.decode().split())
for f in sorted(glob.glob(os.path.join(HERE, "checks", "C*.meta.json"))):
    pid = os.path.basename(f)[:3]
    if "checks/%s.meta.json" % pid in _tracked and "checks/%s.py" % pid in _tracked:
        CLAIMED[pid] = json.load(open(f))
NOT_YET = {}
p = os.path.join(HERE, "checks", "not_claimed.json")
if os.path.exists(p):
    NOT_YET = json.load(open(p))
ALL = ["C%02d" % i for i in range(1, 21)]
