"""MANIFEST.json is rendered by bin/mkmanifest from checks/<id>.meta.json fragments
(keys: category, technique, text, note, design).  A property without a fragment is listed
under not_applicable with the reason in NOT_YET (or the default)."""
import glob, json, os
HERE = os.path.dirname(os.path.dirname(os.path.abspath(__file__)))
CLAIMED = {}
# only checks accepted by the integrator are claimed (checks/claimed.txt, one property id per line);
# contributors' work in progress is not
_accepted = set(open(os.path.join(HERE, "checks", "claimed.txt")).read().split())
for f in sorted(glob.glob(os.path.join(HERE, "checks", "C*.meta.json"))):
    pid = os.path.basename(f)[:3]
    if pid in _accepted:
        CLAIMED[pid] = json.load(open(f))
NOT_YET = {}
p = os.path.join(HERE, "checks", "not_claimed.json")
if os.path.exists(p):
    NOT_YET = json.load(open(p))
ALL = ["C%02d" % i for i in range(1, 21)]
