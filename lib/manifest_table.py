"""Single source for MANIFEST.json: one entry per property (claimed or not).  bin/mkmanifest renders it."""

CLAIMED = {
    "C17": dict(
        category="proof",
        technique="Coq proof (codec round trip + bounds for arbitrary bytes) on a Gallina model of pbofile::open; model tied to the C++ by differential execution of the extracted model",
        text=("Theorems in coq/Properties_C17.v (kernel-checked, closed under the global context): for every well-formed archive of any size "
              "the reader model reports exactly the stored properties/entries and returns every entry's bytes unchanged (open_pack, read_pack); "
              "for ANY byte string every exposed data block lies inside the file and a read returns exactly the advertised number of bytes "
              "(exposed_inside, read_bounded); the reader's loops terminate within the file length. The model is hand-written and tied to "
              "src/rvutils/pbofile.hpp on every run by running the extracted model and the real reader on the same archives (independent packer, "
              "every truncation, byte and length-field corruption, absent path) with crash/hang/OOM/file-creation observed per case."),
        note=("Trusted: Coq kernel, ExtrOcamlBasic extraction and the OCaml driver, the C++ harness (fork/rlimit), the Python packer. "
              "Modelled not verified: pbofile.hpp reader (iostream behaviour is abstracted to a byte list). The writer half of pbofile is outside the property."),
        design="DESIGN.md section 6 C17",
    ),
}

NOT_YET = {
}

ALL = ["C%02d" % i for i in range(1, 21)]
