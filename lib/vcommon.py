"""Shared machinery for /verif checks: building the implementation from /repo's
working tree, building the Coq development and the extracted OCaml drivers, running
line-oriented correspondences, known findings, evidence and verdicts.

Everything here is deterministic given VERIF_SEED and the content of /repo and /verif.
"""
import fcntl, glob, hashlib, json, os, random, re, shutil, subprocess, sys, time

VERIF = os.path.dirname(os.path.dirname(os.path.abspath(__file__)))
REPO = os.environ.get("VERIF_REPO", "/repo")
BUILD = os.environ.get("VERIF_BUILD", os.path.join(VERIF, ".build"))
# VERIF_COQ: a run against a scratch tree (bin/seedtest) works on its own copy of the Coq development - the translators regenerate
# coq/Gen for the tree under test, which must not disturb a check that runs against /repo at the same time
COQ = os.environ.get("VERIF_COQ") or os.path.join(VERIF, "coq")
OCAML_GEN = os.path.join(os.path.dirname(COQ), "ocaml", "gen")
GUARD = "SQFVM_RUNTIME_VERIF"
NPROC = os.cpu_count() or 4


def sh(cmd, timeout=None, cwd=None, inp=None, env=None):
    """Run a command, return (rc, stdout+stderr as str). Never raises on rc != 0."""
    try:
        p = subprocess.run(cmd, shell=isinstance(cmd, str), cwd=cwd, input=inp,
                           stdout=subprocess.PIPE, stderr=subprocess.STDOUT,
                           timeout=timeout, env=env)
        out = p.stdout if isinstance(p.stdout, str) else p.stdout.decode("utf-8", "replace")
        return p.returncode, out
    except subprocess.TimeoutExpired as e:
        out = e.stdout or b""
        if not isinstance(out, str):
            out = out.decode("utf-8", "replace")
        return 124, out + "\n[timeout]"


class Lock:
    def __init__(self, name):
        os.makedirs(BUILD, exist_ok=True)
        self.path = os.path.join(BUILD, name + ".lock")
        if name in ("coq", "syntax-gen"):
            # these guard the Coq development, which two runs with different build directories may share
            self.path = os.path.join(os.path.dirname(COQ), "." + name + ".lock")

    def __enter__(self):
        self.f = open(self.path, "w")
        fcntl.flock(self.f, fcntl.LOCK_EX)
        return self

    def __exit__(self, *a):
        fcntl.flock(self.f, fcntl.LOCK_UN)
        self.f.close()


# --------------------------------------------------------------------------------------
# implementation build (from /repo's current working tree)

FLAVOURS = {
    # _GLIBCXX_ASSERTIONS turns out-of-range vector/string/optional accesses into aborts
    "plain": "-O1 -g0 -fPIC -w -D_GLIBCXX_ASSERTIONS",
    "asan": "-O1 -g -fPIC -w -D_GLIBCXX_ASSERTIONS -fsanitize=address,undefined "
            "-fno-sanitize-recover=all -fno-omit-frame-pointer",
    "tsan": "-O1 -g -fPIC -w -fsanitize=thread",
}
LINKFLAGS = {"plain": "", "asan": "-fsanitize=address,undefined", "tsan": "-fsanitize=thread"}


def repo_sources():
    srcs = []
    for root, dirs, files in os.walk(os.path.join(REPO, "src")):
        rel = os.path.relpath(root, os.path.join(REPO, "src"))
        top = rel.split(os.sep)[0]
        if top in ("unused", "sqc"):
            continue
        for f in sorted(files):
            if f.endswith((".cpp", ".cc", ".c")):
                srcs.append(os.path.join(root, f))
    return sorted(srcs)


def repo_fingerprint():
    h = hashlib.sha256()
    for root, dirs, files in sorted(os.walk(os.path.join(REPO, "src"))):
        dirs.sort()
        for f in sorted(files):
            p = os.path.join(root, f)
            h.update(p.encode())
            with open(p, "rb") as fh:
                h.update(fh.read())
    return h.hexdigest()[:16]


def build_impl(flavour="plain", log=None):
    """Compile every TU of /repo/src (as CMake does, minus unused/ and sqc/) into
    .build/<flavour>/obj and archive all but cli/main.cpp into librepo.a.  Incremental
    through depfiles; a content fingerprint short-cuts the no-change case."""
    bdir = os.path.join(BUILD, flavour)
    odir = os.path.join(bdir, "obj")
    os.makedirs(odir, exist_ok=True)
    with Lock("impl-" + flavour):
        fp = repo_fingerprint()
        stamp = os.path.join(bdir, "fingerprint")
        lib = os.path.join(bdir, "librepo.a")
        if os.path.exists(stamp) and open(stamp).read() == fp and os.path.exists(lib):
            return bdir
        srcs = repo_sources()
        cxx = "ccache g++" if shutil.which("ccache") else "g++"
        flags = ("-std=c++17 %s -DDISABLE_CLIPBOARD -DSQFVM_BUILD -D%s -I%s/src "
                 "-I%s/include/tclap-1.2.2/include" % (FLAVOURS[flavour], GUARD, REPO, REPO))
        objs, rules = [], []
        for s in srcs:
            rel = os.path.relpath(s, os.path.join(REPO, "src"))
            o = os.path.join(odir, rel.replace(os.sep, "__") + ".o")
            objs.append((rel, o))
            rules.append("%s: %s\n\t%s %s -MMD -MP -c %s -o %s\n" % (o, s, cxx, flags, s, o))
        sha = os.path.join(odir, "git_sha1.cpp")
        with open(sha, "w") as f:
            f.write('extern const char g_GIT_SHA1[] = "verif";\n')
        shao = os.path.join(odir, "git_sha1.o")
        rules.append("%s: %s\n\t%s %s -c %s -o %s\n" % (shao, sha, cxx, flags, sha, shao))
        libobjs = [o for rel, o in objs if not rel.startswith("cli" + os.sep)] + [shao]
        allobjs = [o for _, o in objs] + [shao]
        mk = os.path.join(bdir, "Makefile")
        with open(mk, "w") as f:
            f.write("all: %s\n" % " ".join(allobjs))
            f.write("".join(rules))
            f.write("-include %s\n" % " ".join(o[:-2] + ".d" for _, o in objs))
        # objects whose source vanished must not linger in the archive
        keep = set(allobjs)
        for o in glob.glob(os.path.join(odir, "*.o")):
            if o not in keep:
                os.remove(o)
        rc, out = sh("make -k -j%d -f %s all" % (NPROC, mk), timeout=3000)
        if log:
            log.write(out)
        if rc != 0:
            raise BuildError("implementation does not compile (flavour %s):\n%s" % (flavour, out[-4000:]))
        if os.path.exists(lib):
            os.remove(lib)
        rc, out = sh("ar rcs %s %s" % (lib, " ".join(libobjs)))
        if rc != 0:
            raise BuildError("ar failed: " + out)
        # full CLI binary and shared library, as the project ships them
        lf = LINKFLAGS[flavour]
        rc, out = sh("g++ %s -o %s/sqfvm %s -ldl -lpthread -lstdc++fs" % (lf, bdir, " ".join(allobjs)))
        if rc != 0:
            raise BuildError("link sqfvm failed: " + out[-3000:])
        rc, out = sh("g++ %s -shared -o %s/libsqfvm.so %s -ldl -lpthread -lstdc++fs" % (lf, bdir, " ".join(allobjs)))
        if rc != 0:
            raise BuildError("link libsqfvm.so failed: " + out[-3000:])
        with open(stamp, "w") as f:
            f.write(fp)
        # harness binaries are stale now
        for b in glob.glob(os.path.join(bdir, "bin", "*")):
            os.remove(b)
        return bdir


class BuildError(Exception):
    pass


def build_harness(name, flavour="plain", extra=""):
    """Compile /verif/harness/<name>.cpp against the implementation objects."""
    bdir = build_impl(flavour)
    src = os.path.join(VERIF, "harness", name + ".cpp")
    out = os.path.join(bdir, "bin", name)
    os.makedirs(os.path.dirname(out), exist_ok=True)
    with Lock("harness-%s-%s" % (flavour, name)):
        deps = [src] + glob.glob(os.path.join(VERIF, "harness", "*.hpp")) + [os.path.join(bdir, "librepo.a")]
        if os.path.exists(out) and all(os.path.getmtime(out) >= os.path.getmtime(d) for d in deps):
            return out
        flags = ("-std=c++17 %s -DDISABLE_CLIPBOARD -DSQFVM_BUILD -D%s -I%s/src -I%s/harness %s"
                 % (FLAVOURS[flavour], GUARD, REPO, VERIF, extra))
        # linked beside its place and moved there in one step: a check that is running the old binary (a shared harness such as h_syntax or
        # h_sched, rebuilt by another check's run) keeps its file, nobody ever finds a half-written or missing one
        tmp = "%s.new.%d" % (out, os.getpid())
        rc, o = sh("g++ %s %s -o %s %s %s/librepo.a -ldl -lpthread -lstdc++fs"
                   % (flags, LINKFLAGS[flavour], tmp, src, bdir), timeout=1200)
        if rc != 0:
            try:
                os.remove(tmp)
            except OSError:
                pass
            raise BuildError("harness %s does not compile against the current tree:\n%s" % (name, o[-4000:]))
        os.replace(tmp, out)
        return out


# --------------------------------------------------------------------------------------
# Coq / OCaml

def run_translators():
    """Regenerate coq/Gen/*.v from /repo's current tree: every translators/*.py with a generate()."""
    import importlib
    tdir = os.path.join(VERIF, "translators")
    if tdir not in sys.path:
        sys.path.insert(0, tdir)
    done = {}
    for f in sorted(glob.glob(os.path.join(tdir, "*.py"))):
        name = os.path.basename(f)[:-3]
        mod = importlib.import_module(name)
        if hasattr(mod, "generate"):
            try:
                done[name] = mod.generate()
                TRANSLATOR_FAILURES.pop(name, None)
                TRANSLATOR_FALLBACK.pop(name, None)
            except BuildError:
                raise
            except Exception as e:
                # The tie of THIS translator is broken, not every property's: what it generates is removed (source and compiled
                # forms, so that nothing builds against a stale copy) and the failure is remembered; the property files that
                # depend on the removed module then fail to build and name the translator, the others are not affected.
                msg = "translator %s no longer recognises the source: %s" % (name, str(e)[:600])
                # Source-text translators (regular expressions over C++) stop at a harmless rewrite of the code they read. Their tables then
                # come from translators/baseline/ (what the translator produced for the tree this framework was last brought up to date with)
                # and are tied to the code the second way: the correspondence runs of the checks compare the model instantiated with these
                # tables against the implementation. A table that no longer fits the code shows there, with an input.
                base = [os.path.join(VERIF, "translators", "baseline", out + ".v") for out in TRANSLATOR_OUTPUTS.get(name, [])]
                if name in BASELINE_FALLBACK and base and all(os.path.exists(b) for b in base):
                    for b in base:
                        q = os.path.join(COQ, "Gen", os.path.basename(b))
                        txt = open(b).read()
                        if not os.path.exists(q) or open(q).read() != txt:
                            open(q, "w").write(txt)
                    TRANSLATOR_FALLBACK[name] = msg
                    TRANSLATOR_FAILURES.pop(name, None)
                    continue
                TRANSLATOR_FAILURES[name] = msg
                for out in TRANSLATOR_OUTPUTS.get(name, []):
                    if name == "gen_syntax" and getattr(e, "kept", None) and out in e.kept:
                        continue
                    for ext in (".v", ".vo", ".vos", ".vok", ".glob"):
                        q = os.path.join(COQ, "Gen", out + ext)
                        if os.path.exists(q):
                            os.remove(q)
    return done


# module (under coq/Gen) written by each translator
TRANSLATOR_OUTPUTS = {"consts": ["Consts"], "diag": ["DiagCodes"], "gen_syntax": ["Registry", "Grammar"], "overloads": ["Overloads"],
                      "registry_full": ["RegistryFull"], "resultmap": ["ResultMap"], "statics": ["Statics"]}
TRANSLATOR_FAILURES = {}
TRANSLATOR_FALLBACK = {}
BASELINE_FALLBACK = {"consts", "diag", "resultmap"}


def translator_note():
    """what to say next to a failed proof build when a translator failed in this process"""
    return ("; ".join(TRANSLATOR_FAILURES[k] for k in sorted(TRANSLATOR_FAILURES))) if TRANSLATOR_FAILURES else ""


class TranslatorError(Exception):
    pass


def coq_project():
    """_CoqProject is generated: -Q . SqfVerif plus every .v under coq/ (nobody edits it by hand)."""
    files = sorted(os.path.relpath(p, COQ) for p in glob.glob(os.path.join(COQ, "**", "*.v"), recursive=True))
    txt = "-Q . SqfVerif\n" + "\n".join(files) + "\n"
    cp = os.path.join(COQ, "_CoqProject")
    if not os.path.exists(cp) or open(cp).read() != txt:
        with open(cp, "w") as f:
            f.write(txt)


def coq_makefile():
    run_translators()
    with Lock("coq"):
        coq_project()
        mk = os.path.join(COQ, "Makefile.coq")
        cp = os.path.join(COQ, "_CoqProject")
        if not os.path.exists(mk) or os.path.getmtime(mk) < os.path.getmtime(cp):
            rc, out = sh("coq_makefile -f _CoqProject -o Makefile.coq", cwd=COQ)
            if rc != 0:
                raise BuildError("coq_makefile: " + out)


def coq_make(targets, timeout=3000):
    """make -k the given .vo targets (and their dependencies). Returns (ok, output)."""
    coq_makefile()
    with Lock("coq"):
        rc, out = sh("timeout %d make -k -j%d -f Makefile.coq %s" % (timeout, NPROC, " ".join(targets)),
                     cwd=COQ, timeout=timeout + 30)
    return rc == 0, out


ALLOWED_AXIOMS = {
    # standard-library axioms named in DESIGN.md section 7
    "functional_extensionality_dep", "proof_irrelevance", "eq_rect_eq", "classic",
    "ClassicalDedekindReals.sig_forall_dec", "ClassicalDedekindReals.sig_not_dec",
    "FunctionalExtensionality.functional_extensionality_dep", "Classical_Prop.classic",
    "Eqdep.Eq_rect_eq.eq_rect_eq", "ProofIrrelevance.proof_irrelevance",
}


def coq_failure_site(out):
    """names the statement a failed build stopped in: ' at <file>:<line> (<Theorem/Lemma name>): <error text>'"""
    m = re.search(r'File "\./([^"]+)", line (\d+)[^\n]*\n((?:.*\n){0,12}?)Error:?\s*((?:.*\n?){1,3})', out)
    if not m:
        return ""
    f, line, err = m.group(1), int(m.group(2)), " ".join(m.group(4).split())[:200]
    name = "?"
    try:
        src = open(os.path.join(COQ, f)).read().split("\n")[:line]
        for l in reversed(src):
            mm = re.match(r"\s*(?:Local\s+|Global\s+)?(Theorem|Lemma|Example|Corollary|Fact|Remark|Definition|Fixpoint|Inductive)\s+([A-Za-z0-9_']+)", l)
            if mm:
                name = mm.group(2)
                break
    except OSError:
        pass
    return " at %s:%d (%s): %s" % (f, line, name, err)


def coq_property_file(pid, timeout=1500, stem=None):
    """Re-check Properties_<pid>.v from scratch (its dependencies incrementally) and
    parse the `Print Assumptions` output beneath every theorem.
    Returns dict(theorems=[(name, axioms-or-'closed')], ok=bool, log=str, bad=[...])."""
    coq_makefile()
    stem = stem or ("Properties_%s" % pid)
    vfile = os.path.join(COQ, stem + ".v")
    src = open(vfile).read()
    theorems = re.findall(r"^\s*Theorem\s+([A-Za-z0-9_']+)", src, re.M)
    res = {"theorems": [], "ok": False, "log": "", "bad": [], "declared": theorems}
    with Lock("coq"):
        # dependencies first
        rc, out = sh("timeout %d make -k -j%d -f Makefile.coq %s.vo" % (timeout, NPROC, stem),
                     cwd=COQ, timeout=timeout + 30)
        if rc != 0:
            # a concurrent build of the same files (another check, an editor session) can make one attempt fail
            time.sleep(2)
            rc, out = sh("timeout %d make -k -j%d -f Makefile.coq %s.vo" % (timeout, NPROC, stem),
                         cwd=COQ, timeout=timeout + 30)
        res["log"] = out
        if rc != 0:
            res["bad"].append("make %s.vo failed%s%s" % (stem, coq_failure_site(out), (" [" + translator_note() + "]") if translator_note() else ""))
            return res
        # now compile the property file itself again, capturing what it prints (the `Print Assumptions` outputs). The captured text is kept
        # next to the compiled file and reused as long as make did not have to rebuild that file since (make has just decided, from the
        # sources and every dependency, that <stem>.vo is current): the second compilation would print the same text again
        args = coqproject_args()
        vo = os.path.join(COQ, stem + ".vo")
        saved = os.path.join(COQ, "." + stem + ".printed")
        out = None
        try:
            if (os.path.exists(saved) and os.path.getmtime(saved) >= os.path.getmtime(vo) >= os.path.getmtime(vfile)
                    and not os.environ.get("VERIF_NO_PROOF_CACHE")):
                out = open(saved).read()
                if "Closed under the global context" not in out and "Axioms:" not in out:
                    out = None
        except OSError:
            out = None
        if out is None:
            rc, out = sh("timeout %d coqc %s %s.v" % (timeout, args, stem), cwd=COQ, timeout=timeout + 30)
            res["log"] += out
            if rc != 0:
                res["bad"].append("coqc %s.v failed%s%s" % (stem, coq_failure_site(out), (" [" + translator_note() + "]") if translator_note() else ""))
                return res
            try:
                with open(saved + ".tmp", "w") as f:
                    f.write(out)
                os.replace(saved + ".tmp", saved)
            except OSError:
                pass
        else:
            res["log"] += out
            res["printed_reused"] = True
    # every Theorem must be followed by Print Assumptions; parse outputs in order
    chunks = re.split(r"(?m)^(?=Closed under the global context|Axioms:)", out)
    chunks = [c for c in chunks if c.startswith("Closed under") or c.startswith("Axioms:")]
    printed = re.findall(r"Print Assumptions\s+([A-Za-z0-9_']+)", src)
    if len(chunks) != len(printed):
        res["bad"].append("Print Assumptions count mismatch: %d outputs for %d commands" % (len(chunks), len(printed)))
    for name, c in zip(printed, chunks):
        if c.startswith("Closed"):
            res["theorems"].append((name, "closed"))
        else:
            axs = [a for a in re.findall(r"^([A-Za-z0-9_.']+)\s*:", c, re.M) if a != "Axioms"]
            res["theorems"].append((name, ", ".join(axs)))
            for a in axs:
                if a not in ALLOWED_AXIOMS and a.split(".")[-1] not in ALLOWED_AXIOMS:
                    res["bad"].append("theorem %s depends on non-whitelisted axiom %s" % (name, a))
    for t in theorems:
        if t not in printed:
            res["bad"].append("theorem %s has no Print Assumptions" % t)
    res["ok"] = not res["bad"]
    return res


def kernel_crosscheck(name, imports, body, timeout=600):
    """Tie of the EXTRACTED code to the kernel: `body` is Gallina text that states, as Examples proved by `vm_compute. reflexivity.`,
    that the model's definitions evaluated inside Coq give exactly the answers the extracted OCaml driver gave for a sample of this
    run's cases.  The file lives in the build directory (never in coq/), is compiled with the project's load path and must be
    accepted by coqc.  Returns (ok, message)."""
    d = os.path.join(BUILD, "kernel")
    os.makedirs(d, exist_ok=True)
    vf = os.path.join(d, "Kernel_%s.v" % name)
    with open(vf, "w") as f:
        f.write("(* written by the check on every run: extracted model vs kernel evaluation, same inputs *)\n")
        f.write(imports + "\n" + body + "\n")
    with Lock("coq"):
        rc, out = sh("timeout %d coqc -Q %s SqfVerif -Q %s Kernel %s" % (timeout, COQ, d, vf), cwd=d, timeout=timeout + 30)
    if rc != 0:
        return False, out[-1500:]
    return True, ""


def capture_printed(stem, timeout=1500):
    """bin/setup, after the full build: compile one property file once more (nothing else writes the Coq directory then) and keep what
    it prints for coq_property_file to reuse."""
    rc, out = sh("timeout %d coqc %s %s.v" % (timeout, coqproject_args(), stem), cwd=COQ, timeout=timeout + 30)
    if rc == 0:
        saved = os.path.join(COQ, "." + stem + ".printed")
        with open(saved + ".tmp", "w") as f:
            f.write(out)
        os.replace(saved + ".tmp", saved)
    return rc


def coqproject_args():
    args = []
    for line in open(os.path.join(COQ, "_CoqProject")):
        line = line.strip()
        if line.startswith("-Q") or line.startswith("-R"):
            args.append(line)
    return " ".join(args)


FORBIDDEN = re.compile(r"\b(Admitted|admit|Axiom|Axioms|Parameter|Parameters|Conjecture|Conjectures|"
                       r"bypass_check|Admit Obligations)\b|Unset Guard Checking|Unset Positivity Checking|"
                       r"Unset Universe Checking|-type-in-type|-impredicative-set")


def coq_hygiene():
    """grep the whole development for forbidden declarations. Returns list of offending lines."""
    bad = []
    for p in sorted(glob.glob(os.path.join(COQ, "**", "*.v"), recursive=True)) + [os.path.join(COQ, "_CoqProject")]:
        txt = open(p).read()
        # strip comments (non-nested approximation good enough: we forbid the words in comments too
        # except inside (* ... *) — remove those)
        stripped = re.sub(r"\(\*.*?\*\)", "", txt, flags=re.S)
        for i, line in enumerate(stripped.split("\n")):
            if FORBIDDEN.search(line):
                bad.append("%s: %s" % (os.path.relpath(p, VERIF), line.strip()))
    return bad


def ocaml_driver(name, timeout=900):
    """Extract coq/Extract_<name>.v (-> ocaml/gen/<name>_model.ml) and link ocaml/<name>_driver.ml."""
    gen = OCAML_GEN
    os.makedirs(gen, exist_ok=True)
    exe = os.path.join(BUILD, "ocaml", name + "_driver")
    os.makedirs(os.path.dirname(exe), exist_ok=True)
    ok, out = coq_make(["Extract_%s.vo" % name], timeout)
    if not ok:
        raise BuildError("extraction of %s failed:\n%s" % (name, out[-3000:]))
    with Lock("ocaml-" + name):
        ml = os.path.join(gen, name + "_model.ml")
        drv = os.path.join(VERIF, "ocaml", name + "_driver.ml")
        deps = [ml, drv, os.path.join(VERIF, "ocaml", "proto.ml")]
        if os.path.exists(exe) and all(os.path.getmtime(exe) >= os.path.getmtime(d) for d in deps):
            return exe
        work = os.path.join(BUILD, "ocaml", name + ".work")
        shutil.rmtree(work, ignore_errors=True)
        os.makedirs(work)
        for f in [ml, ml + "i", drv, os.path.join(VERIF, "ocaml", "proto.ml")]:
            if os.path.exists(f):
                shutil.copy(f, work)
        files = "%s_model.mli %s_model.ml proto.ml %s_driver.ml" % (name, name, name)
        if not os.path.exists(ml + "i"):
            files = files.replace("%s_model.mli " % name, "")
        rc, o = sh("ocamlfind ocamlopt -package str -linkpkg -w -a %s -o %s" % (files, exe),
                   cwd=work, timeout=timeout)
        if rc != 0:
            raise BuildError("ocaml driver %s: %s" % (name, o[-3000:]))
        return exe


# --------------------------------------------------------------------------------------
# line protocol helpers

def hx(b):
    if isinstance(b, str):
        b = b.encode("latin-1")
    return b.hex() if b else "-"


def unhx(s):
    return b"" if s == "-" else bytes.fromhex(s)


def run_lines(cmd, lines, timeout=3000, cwd=None, env=None):
    """Feed lines (list of str) to cmd's stdin, return list of output lines."""
    inp = ("\n".join(lines) + "\n").encode()
    p = subprocess.run(cmd, input=inp, stdout=subprocess.PIPE, stderr=subprocess.PIPE, timeout=timeout, cwd=cwd, env=env)
    out = p.stdout.decode("latin-1").split("\n")
    if out and out[-1] == "":
        out.pop()
    return p.returncode, out, p.stderr.decode("latin-1", "replace")


def run_lines_parallel(cmd, lines, shards=None, timeout=3000, cwd=None, env=None):
    """Same, sharded over processes; order of results preserved."""
    from concurrent.futures import ThreadPoolExecutor
    shards = shards or NPROC
    n = len(lines)
    if n == 0:
        return 0, [], ""
    size = max(1, (n + shards - 1) // shards)
    parts = [lines[i:i + size] for i in range(0, n, size)]
    with ThreadPoolExecutor(len(parts)) as ex:
        rs = list(ex.map(lambda part: run_lines(cmd, part, timeout, cwd, env), parts))
    out, err, rc = [], "", 0
    for part, (r, o, e) in zip(parts, rs):
        if len(o) != len(part):
            o = o + ["HARNESS-LOST"] * (len(part) - len(o))
            rc = rc or 99
        rc = rc or r
        out += o[:len(part)]
        err += e
    return rc, out, err


# --------------------------------------------------------------------------------------
# known findings

class Known:
    """known_findings.txt:  finding: property=Cxx key=<slug> site=<file:lines> witness=<text> what=<text>
                            fixed: property=Cxx <commit> <what failed>"""

    def __init__(self):
        self.findings = {}
        p = os.path.join(VERIF, "known_findings.txt")
        if os.path.exists(p):
            for line in open(p):
                line = line.strip()
                if line.startswith("finding:"):
                    m = re.match(r"finding:\s+property=(\S+)\s+key=(\S+)\s+(.*)", line)
                    if m:
                        self.findings.setdefault(m.group(1), {})[m.group(2)] = m.group(3)

    def has(self, pid, key):
        return key in self.findings.get(pid, {})

    def text(self, pid, key):
        return self.findings[pid][key]


# --------------------------------------------------------------------------------------
# a check run

class Run:
    def __init__(self, pid, level="proof"):
        self.pid = pid
        self.t0 = time.time()
        self.tier = os.environ.get("VERIF_TIER", "quick")
        self.seed = int(os.environ.get("VERIF_SEED", "1") or "1")
        self.rng = random.Random(self.seed * 1000003 + sum(map(ord, pid)))
        self.level = level
        self.cov = {"obligations": 0, "discharged": 0, "checker_cmd": "", "trusted_base": [],
                    "evaluations": 0, "distinct_nontrivial": 0, "rule": "", "samples": [], "theorems": []}
        self.assumptions = []
        self.violations = []       # (what, replay_obj, found_input: bool)
        self.known_hits = {}       # key -> count
        self.known = Known()
        self.notes = []

    # ---- proof side
    def prove(self, stems=None):
        """Hygiene + Properties_<pid>.v (or the given property files). Records obligations; a failure is a
        broken proof obligation."""
        bad = coq_hygiene()
        stems = stems or ["Properties_%s" % self.pid]
        r = {"theorems": [], "ok": True, "log": "", "bad": [], "declared": []}
        for st in stems:
            x = coq_property_file(self.pid, stem=st)
            r["theorems"] += x["theorems"]; r["declared"] += x["declared"]; r["bad"] += x["bad"]
            r["log"] += x["log"]; r["ok"] = r["ok"] and x["ok"]
            if x.get("printed_reused"):
                self.cov.setdefault("print_assumptions_text_reused_for", []).append(st)
        self.cov["checker_cmd"] = ("cd /verif/coq && coq_makefile -f _CoqProject -o Makefile.coq && " +
                                   " && ".join("make -f Makefile.coq %s.vo && coqc -Q . SqfVerif %s.v" % (st, st) for st in stems) +
                                   "  (Coq 8.16.1 kernel; Print Assumptions under every theorem; when make finds <file>.vo current, the text its last compilation printed is reused instead of compiling the file a second time)")
        declared = r["declared"]
        done = [n for n, a in r["theorems"]] if r["ok"] else []
        self.cov["obligations"] = max(len(declared), 1)
        self.cov["discharged"] = len([t for t in declared if t in done])
        self.cov["theorems"] = [{"name": n, "assumptions": a} for n, a in r["theorems"]]
        for n, a in r["theorems"]:
            self.assumptions.append("Print Assumptions %s: %s" % (n, "Closed under the global context" if a == "closed" else a))
        problems = list(r["bad"]) + ["forbidden declaration: " + b for b in bad]
        self.proof_log = r["log"]
        return problems

    # ---- verdict
    def violation(self, what, replay, found_input=True):
        self.violations.append((what, replay, found_input))

    def known_finding(self, key):
        self.known_hits[key] = self.known_hits.get(key, 0) + 1

    def finish(self):
        # VERIF_OUT: evidence and replays of a run against a scratch tree (bin/seedtest) go elsewhere
        OUT = os.environ.get("VERIF_OUT") or VERIF
        os.makedirs(os.path.join(OUT, "evidence"), exist_ok=True)
        os.makedirs(os.path.join(OUT, "replays", self.pid), exist_ok=True)
        for key in sorted(self.known_hits):
            print("KNOWN-FINDING: property=%s %s [%s; %d case(s) this run]" %
                  (self.pid, self.known.text(self.pid, key), key, self.known_hits[key]))
        lines = []
        seen = set()
        # violations with a concrete failing input are reported first (the list is capped at 10 lines)
        for what, replay, found in sorted(self.violations, key=lambda v: 0 if v[2] else 1):
            blob = json.dumps(replay, sort_keys=True, default=str)
            h = hashlib.sha1(blob.encode()).hexdigest()[:12]
            if h in seen:
                continue
            seen.add(h)
            path = os.path.join(OUT, "replays", self.pid, h + ".json")
            with open(path, "w") as f:
                json.dump({"property": self.pid, "what": what, "seed": self.seed, "tier": self.tier,
                           "found_failing_input": found, "replay": replay,
                           "replay_cmd": "cd /verif && bin/check %s --replay %s" % (self.pid, path)}, f, indent=1, default=str)
            lines.append("VIOLATION property=%s replay=%s%s" % (self.pid, path, "" if found else " no-failing-input-found"))
            if len(lines) >= 10:
                break
        self.cov["known_findings_hit"] = dict(self.known_hits)
        if TRANSLATOR_FALLBACK:
            self.cov["translator_fallbacks"] = dict(TRANSLATOR_FALLBACK)
            for k in sorted(TRANSLATOR_FALLBACK):
                print("NOTE: property=%s %s - its tables are the baseline of translators/baseline/, tied to this tree by the correspondence runs only"
                      % (self.pid, TRANSLATOR_FALLBACK[k][:300]))
        ev = {"property_id": self.pid, "tier": self.tier if self.tier in ("quick", "thorough") else "quick",
              "seed": self.seed, "level": self.level, "coverage": self.cov,
              "assumptions": self.assumptions, "wall_s": round(time.time() - self.t0, 2),
              "violations": len(lines), "notes": self.notes}
        with open(os.path.join(OUT, "evidence", self.pid + ".json"), "w") as f:
            json.dump(ev, f, indent=1, default=str)
        for l in lines:
            print(l)
        print("%s: %d obligations, %d discharged, %d evaluations, %d violations, %.1fs" %
              (self.pid, self.cov["obligations"], self.cov["discharged"], self.cov["evaluations"], len(lines),
               time.time() - self.t0))
        sys.stdout.flush()
        return 1 if lines else 0
