(* Scheduler / run-history driver (C11, C12):
   "<defects,>;<max_runtime_us>;<tick_us>;<max_loop>;<slice> \t <cmd>@<cmd>@..."
   cmd: "L <program tokens>" | "S" | "T <n>" | "A" | "J <us>"
   -> hex(text of load 1),hex(text of load 2),... \t obs|obs|... \t pass logs of run 1|run 2|...
   The program tokens are those of vm_driver.ml. *)
open Proto
type ostring = string
open Sched_model

let rec pos_of_int n = if n = 1 then XH else if n land 1 = 0 then XO (pos_of_int (n lsr 1)) else XI (pos_of_int (n lsr 1))
let z_of_int n = if n = 0 then Z0 else if n > 0 then Zpos (pos_of_int n) else Zneg (pos_of_int (-n))
let rec nat_of_int n = if n <= 0 then O else S (nat_of_int (n - 1))
let ascii_of_char c =
  let n = Char.code c in
  let b i = (n lsr i) land 1 = 1 in
  Ascii (b 0, b 1, b 2, b 3, b 4, b 5, b 6, b 7)
let char_of_ascii (Ascii (a, b, c, d, e, f, g, h)) =
  let v x i = if x then 1 lsl i else 0 in
  Char.chr (v a 0 + v b 1 + v c 2 + v d 3 + v e 4 + v f 5 + v g 6 + v h 7)
let cstr (s : ostring) : string =
  let r = ref EmptyString in
  for i = String.length s - 1 downto 0 do r := String (ascii_of_char s.[i], !r) done; !r
let ostr (s : string) : ostring =
  let b = Buffer.create 64 in
  let rec go = function EmptyString -> () | String (c, r) -> Buffer.add_char b (char_of_ascii c); go r in
  go s; Buffer.contents b
let hexstr s = if s = "" then "-" else hex_of_bytes (List.init (String.length s) (fun i -> Char.code s.[i]))
let unhexstr h = if h = "-" then "" else (let l = bytes_of_hex h in String.init (List.length l) (fun i -> Char.chr (List.nth l i)))

let toks = ref [||] and tp = ref 0
let next () = let t = !toks.(!tp) in incr tp; t
let rec rexpr () : expr =
  match next () with
  | "N" -> ENum (z_of_int (int_of_string (next ())))
  | "T" -> EBool true | "F" -> EBool false
  | "S" -> EStr (cstr (unhexstr (next ())))
  | "V" -> EVar (cstr (next ()))
  | "A" -> let n = int_of_string (next ()) in EArr (List.init n (fun _ -> rexpr ()))
  | "C" -> let n = int_of_string (next ()) in ECode (List.init n (fun _ -> rstmt ()))
  | "0" -> ENular (cstr (next ()))
  | "1" -> let n = next () in let e = rexpr () in EUnary (cstr n, e)
  | "2" -> let n = next () in let l = rexpr () in let r = rexpr () in EBinary (cstr n, l, r)
  | t -> failwith ("bad expr token " ^ t)
and rstmt () : stmt =
  match next () with
  | "E" -> SExpr (rexpr ())
  | "=" -> let n = next () in SAssign (cstr n, rexpr ())
  | "L" -> let n = next () in SLocal (cstr n, rexpr ())
  | t -> failwith ("bad stmt token " ^ t)

let parse_block (s : ostring) =
  toks := Array.of_list (List.filter (fun s -> s <> "") (String.split_on_char ' ' s));
  tp := 0;
  let n = int_of_string (next ()) in
  List.init n (fun _ -> rstmt ())

let () = iter_lines (fun line ->
  match split_tab line with
  | [cfg; cmds] ->
    (match String.split_on_char ';' cfg with
     | [defs; maxrt; tick; maxloop; slice] ->
       let defects = List.map cstr (List.filter (fun s -> s <> "") (String.split_on_char ',' defs)) in
       let texts = ref [] in
       let one (c : ostring) : cmd =
         let c = String.trim c in
         if c = "S" then CStart
         else if c = "A" then CAbort
         else if String.length c > 1 && c.[0] = 'T' then CSteps (nat_of_int (int_of_string (String.trim (String.sub c 1 (String.length c - 1)))))
         else if String.length c > 1 && c.[0] = 'J' then CJump (z_of_int (int_of_string (String.trim (String.sub c 1 (String.length c - 1)))))
         else if String.length c > 1 && c.[0] = 'L' then begin
           let block = parse_block (String.sub c 1 (String.length c - 1)) in
           texts := hexstr (ostr (print_block block)) :: !texts;
           CLoad (compile_block block) end
         else failwith ("bad command " ^ c) in
       let cl = List.map one (String.split_on_char '@' cmds) in
       let r0 = create_rt defects (z_of_int (int_of_string maxrt)) (z_of_int (int_of_string tick))
                  (nat_of_int (int_of_string maxloop)) (nat_of_int (int_of_string slice)) in
       let (obs, sched) = run_history cl r0 [] [] in
       Printf.sprintf "%s\t%s\t%s" (String.concat "," (List.rev !texts))
         (String.concat "|" (List.map ostr obs)) (String.concat "|" (List.map ostr sched))
     | _ -> "BADCFG")
  | _ -> "BADLINE")
