(* Driver of the API-area models (C18, C19, C20).  Mode = argv[1]:
   ctl-text : "<program tokens>"                                   -> hex(text) \t listing
   ctl-tree : "<switches>\t<base E|L|F|X>\t<program tokens>\t<diag table>\t<depth>\t<alphabet>"
              -> "<obs of the base state>;<path>=<obs>;..."       (same order and format as harness/h_ctl tree)
   ctl-seq  : "<switches>\t<base>\t<program tokens>\t<diag table>\t<actions>"  -> "<obs base>;<obs>;..."
   ctl-view : "<actions>"   controller actions while an executor is inside execute(start): state running, run flag set
              -> "<result>:<state>;..."
   api      : "<switches>\t<tick_us>\t<op>\t<op>..."               -> "<ret>{records}|..."  (format of harness/h_api api)
   iso      : "<switches>\t<alone|after|twice>\t<ops P>\t<ops Q>"  -> output lines of P joined by '|'
   switches: "asis" | "repaired" | comma separated names of the switches that are ON *)
open Proto
type ostring = string
open Api_model

let rec pos_of_int n = if n = 1 then XH else if n land 1 = 0 then XO (pos_of_int (n lsr 1)) else XI (pos_of_int (n lsr 1))
let z_of_int n = if n = 0 then Z0 else if n > 0 then Zpos (pos_of_int n) else Zneg (pos_of_int (-n))
let rec nat_of_int n = if n <= 0 then O else S (nat_of_int (n - 1))
let ascii_of_char c =
  let n = Char.code c in
  let b i = (n lsr i) land 1 = 1 in
  Ascii (b 0, b 1, b 2, b 3, b 4, b 5, b 6, b 7)
let char_of_ascii (Ascii (a, b, c, d, e, f, g, h)) =
  let v x i = if x then 1 lsl i else 0 in
  Char.chr (v a 0 + v b 1 + v c 2 + v d 3 + v e 4 + v f 5 + v g 6 + v h 7)
let cstr (s : ostring) : string =
  let r = ref EmptyString in
  for i = String.length s - 1 downto 0 do r := String (ascii_of_char s.[i], !r) done; !r
let ostr (s : string) : ostring =
  let b = Buffer.create 64 in
  let rec go = function EmptyString -> () | String (c, r) -> Buffer.add_char b (char_of_ascii c); go r in
  go s; Buffer.contents b
let hexstr s = hex_of_bytes (List.init (String.length s) (fun i -> Char.code s.[i]))
let unhexstr h = let l = bytes_of_hex h in String.init (List.length l) (fun i -> Char.chr (List.nth l i))

(* ---------------------------------------------------------------- program tokens (format of vm_driver.ml) *)
let toks = ref [||] and tp = ref 0
let next () = let t = !toks.(!tp) in incr tp; t
let rec rexpr () : expr =
  match next () with
  | "N" -> ENum (z_of_int (int_of_string (next ())))
  | "T" -> EBool true | "F" -> EBool false
  | "S" -> EStr (cstr (unhexstr (next ())))
  | "V" -> EVar (cstr (next ()))
  | "A" -> let n = int_of_string (next ()) in EArr (List.init n (fun _ -> rexpr ()))
  | "C" -> let n = int_of_string (next ()) in ECode (List.init n (fun _ -> rstmt ()))
  | "0" -> ENular (cstr (next ()))
  | "1" -> let n = next () in let e = rexpr () in EUnary (cstr n, e)
  | "2" -> let n = next () in let l = rexpr () in let r = rexpr () in EBinary (cstr n, l, r)
  | t -> failwith ("bad expr token " ^ t)
and rstmt () : stmt =
  match next () with
  | "E" -> SExpr (rexpr ())
  | "=" -> let n = next () in SAssign (cstr n, rexpr ())
  | "L" -> let n = next () in SLocal (cstr n, rexpr ())
  | t -> failwith ("bad stmt token " ^ t)
let read_block (s : ostring) : stmt list =
  toks := Array.of_list (List.filter (fun x -> x <> "") (String.split_on_char ' ' s));
  tp := 0;
  let n = int_of_string (next ()) in
  List.init n (fun _ -> rstmt ())

(* ---------------------------------------------------------------- C19 *)
let ctl_switches (s : ostring) : cdefects =
  if s = "asis" then ctl_as_is else if s = "repaired" || s = "" then ctl_repaired
  else begin
    let on = String.split_on_char ',' s in
    { d_noscript_invalid = List.mem "noscript" on; d_null_active = List.mem "nullactive" on;
      d_line_is_instr = List.mem "lineinstr" on; d_leave_keeps_active = List.mem "leavekeeps" on } end

(* diag table of the harness: "l.c.o,l.c.o[...],..." nested like the instruction listing *)
type dnode = { line : int; off : int; sub : dnode list option }
(* (column, offset) pairs are interned to small numbers: the model only compares them *)
let interned : ((int * int) * int) list ref = ref []
let intern (k : int * int) : int =
  match List.assoc_opt k !interned with
  | Some i -> i
  | None -> let i = List.length !interned in interned := (k, i) :: !interned; i
let parse_diag (s : ostring) : dnode list =
  interned := [];
  let n = String.length s in
  let p = ref 0 in
  let rec items () : dnode list =
    if !p >= n || s.[!p] = ']' then [] else begin
      let it = item () in
      if !p < n && s.[!p] = ',' then (incr p; it :: items ()) else [it] end
  and num () = let st = !p in while !p < n && s.[!p] >= '0' && s.[!p] <= '9' do incr p done; int_of_string (String.sub s st (!p - st))
  and item () : dnode =
    let l0 = num () in incr p; let c = num () in incr p; let o0 = num () in
    (* optional fourth number: index of the file the instruction comes from.  The model's "line" is the pair (file, line),
       packed into one number (line_step ends in front of the first instruction of another line OR another file) *)
    let fl = if !p < n && s.[!p] = '.' then (incr p; num ()) else 0 in
    let l = fl * 1000 + l0 in
    let o = intern (c, o0) in
    if !p < n && s.[!p] = '[' then begin incr p; let ch = items () in incr p; { line = l; off = o; sub = Some ch } end
    else { line = l; off = o; sub = None } in
  items ()

exception Ambiguous
let build_dg (c : code) (d : dnode list) : (code -> nat -> (nat * nat)) =
  let tbl : (code * (int * int) array) list ref = ref [] in
  let rec walk (c : code) (d : dnode list) =
    if List.length c <> List.length d then raise Ambiguous;
    let arr = Array.of_list (List.map (fun x -> (x.line, x.off)) d) in
    (match List.assoc_opt c !tbl with
     | Some a when a <> arr -> raise Ambiguous
     | Some _ -> ()
     | None -> tbl := (c, arr) :: !tbl);
    List.iter2 (fun i x -> match i, x.sub with
      | IPush (VCode c'), Some ch -> walk c' ch
      | IPush (VCode _), None -> raise Ambiguous
      | _, _ -> ()) c d in
  walk c d;
  let t = !tbl in
  (fun c i ->
     let rec int_of_nat = function O -> 0 | S n -> 1 + int_of_nat n in
     let k = int_of_nat i in
     match List.assoc_opt c t with
     | Some a when k < Array.length a -> let (l, o) = a.(k) in (nat_of_int l, nat_of_int o)
     | _ -> (O, O))

let action_of = function
  | 's' -> AStart | 't' -> AStop | 'a' -> AAbort | 'p' -> AAssemblyStep | 'l' -> ALineStep | 'v' -> ALeaveScope
  | c -> failwith (Printf.sprintf "bad action %c" c)

let base_kind = function "E" -> 0 | "L" -> 1 | _ -> 2

let ctl_tree sw base prog diag depth alphabet : ostring =
  let d = ctl_switches sw in
  let block = read_block prog in
  let code = compile_block block in
  match (try Some (build_dg code (parse_diag diag)) with Ambiguous -> None) with
  | None -> "AMBIGUOUS"
  | Some dg ->
    let buf = Buffer.create 4096 in
    (match show_outcome (base_state d dg (nat_of_int (base_kind base)) code) with
     | (s, None) -> Buffer.add_string buf (ostr s)
     | (s, Some r0) ->
       Buffer.add_string buf (ostr s);
       let rec go (path : ostring) (r : rt) =
         if String.length path < depth then
           String.iter (fun c ->
             let p = path ^ String.make 1 c in
             match show_outcome (execute_ctl d dg (action_of c) r) with
             | (s, Some r') -> Buffer.add_string buf (";" ^ p ^ "=" ^ ostr s); go p r'
             | (s, None) -> Buffer.add_string buf (";" ^ p ^ "=" ^ ostr s)) alphabet in
       go "" r0);
    Buffer.contents buf

let ctl_seq sw base prog diag actions : ostring =
  let d = ctl_switches sw in
  let code = compile_block (read_block prog) in
  match (try Some (build_dg code (parse_diag diag)) with Ambiguous -> None) with
  | None -> "AMBIGUOUS"
  | Some dg ->
    (match show_outcome (base_state d dg (nat_of_int (base_kind base)) code) with
     | (s, None) -> ostr s
     | (s, Some r0) ->
       let acts = List.filter (fun c -> c <> '-') (List.init (String.length actions) (String.get actions)) in
       String.concat ";" (ostr s :: List.map ostr (run_seq d dg (List.map action_of acts) r0 [])))

(* the controller's view while another thread is inside execute(start): m_state = running, m_run_atomic = true *)
let ctl_view actions : ostring =
  let dg = (fun _ _ -> (O, O)) in
  let r0 = set_run (set_state (create_rt [] Z0 Z0 (nat_of_int 10000) (nat_of_int 150)) StRunning) true in
  let acts = List.filter (fun c -> c <> '-') (List.init (String.length actions) (String.get actions)) in
  let rec go r = function
    | [] -> []
    | a :: rest ->
      (match execute_ctl ctl_repaired dg (action_of a) r with
       | Ok (x, r') ->
         let s = ostr (observe_ctl x r') in
         let f = String.split_on_char ':' s in
         (List.nth f 0 ^ ":" ^ List.nth f 1) :: go r' rest
       | _ -> ["MODEL-NOT-OK"]) in
  String.concat ";" (go r0 acts)

(* ---------------------------------------------------------------- C18 *)
let api_switches (s : ostring) : adefects =
  if s = "asis" then api_as_is else if s = "repaired" || s = "" then api_repaired
  else begin
    let on = String.split_on_char ',' s in
    { d_pp_deref = List.mem "ppderef" on; d_load_calldata = List.mem "loadcalldata" on; d_destroy_null = List.mem "destroynull" on } end

let diags (s : ostring) : (z * z) list =
  if s = "-" || s = "" then [] else
    List.map (fun x -> match String.split_on_char ':' x with
      | [l; c] -> (z_of_int (int_of_string l), z_of_int (int_of_string c))
      | _ -> failwith "bad diag") (String.split_on_char ',' s)

let handle_of (s : ostring) : handle =
  match s with "N" -> HNull | "B" | "X" -> HBogus | _ -> HInst (nat_of_int (int_of_string s))

let front_of (s : ostring) : front =
  let body = String.sub s 1 (String.length s - 1) in
  match s.[0] with
  | 'F' -> FPpFail (diags body)
  | 'E' -> (match String.split_on_char ';' body with [a; b] -> FParseFail (diags a, diags b) | _ -> failwith "bad front E")
  | 'O' -> (match String.split_on_char ';' body with
      | [a; b; pp; prog] -> FOk0 (diags a, diags b, compile_block (read_block prog), cstr pp)
      | _ -> failwith "bad front O")
  | _ -> failwith "bad front"
let cfront_of (s : ostring) : cfront =
  let body = String.sub s 1 (String.length s - 1) in
  match s.[0] with
  | 'F' -> CPpFail (diags body)
  | 'E' -> (match String.split_on_char ';' body with [a; b] -> CParseFail (diags a, diags b) | _ -> failwith "bad cfront E")
  | 'O' -> (match String.split_on_char ';' body with
      | [a; b; cls] -> COk (diags a, diags b, List.map (fun h -> cstr (unhexstr h)) (List.filter (fun x -> x <> "" && x <> "-") (String.split_on_char ',' cls)))
      | _ -> failwith "bad cfront O")
  | _ -> failwith "bad cfront"

let op_of (s : ostring) : aop =
  let f = String.split_on_char '@' (String.sub s 1 (String.length s - 1)) in
  match s.[0], f with
  | 'C', [u; mr] -> OCreate (z_of_int (int_of_string u), z_of_int (int_of_string mr))
  | 'D', [h] -> ODestroy (handle_of h)
  | 'S', [h] -> OStatus (handle_of h)
  | 'L', [h; fr] -> OLoad (handle_of h, cfront_of fr)
  | 'K', [h; cd; ty; fr] -> OCall (handle_of h, z_of_int (int_of_string cd), z_of_int (int_of_string ty), front_of fr)
  | 'P', [h; cd; cls] -> OProbe (handle_of h, z_of_int (int_of_string cd), cstr (unhexstr cls))
  | _ -> failwith ("bad op " ^ s)

let rec int_of_pos = function XH -> 1 | XO p -> 2 * int_of_pos p | XI p -> 2 * int_of_pos p + 1
let int_of_z = function Z0 -> 0 | Zpos p -> int_of_pos p | Zneg p -> - (int_of_pos p)
(* same canonicalisation as harness/h_api.cpp: the separators of the line protocol never occur inside a text *)
let canon (s : ostring) : ostring = String.map (fun c -> match c with '\t' | '\n' | '\r' | '|' | ',' | '{' | '}' -> ' ' | c -> c) s
let show_rec_o (r : cbrec) : ostring =
  let cd = match r.cb_call with CdGarbage -> "U" | CdNull -> "0" | CdVal z -> string_of_int (int_of_z z) in
  let sev = int_of_z r.cb_sev in
  Printf.sprintf "%d:%s:%d%s" (int_of_z r.cb_user) cd sev
    (match r.cb_text with
     | Some t -> if sev = -1 then ":R" ^ ostr t else ":M<" ^ canon (ostr t) ^ ">"
     | None -> if sev = -1 then ":R" else "")
let show_op_o = function
  | Ok (ret, recs) -> Printf.sprintf "%d{%s}" (int_of_z ret) (String.concat "," (List.map show_rec_o recs))
  | o -> ostr (show_op o)

let api sw tick ops : ostring =
  let d = api_switches sw in
  let w = { w_insts = []; w_clock = Z0; w_tick = z_of_int (int_of_string tick) } in
  String.concat "|" (List.map show_op_o (run_ops d w (List.map op_of ops) []))

(* ---------------------------------------------------------------- C20 *)
let iso_switches (s : ostring) : idefects =
  if s = "asis" then iso_as_is else if s = "counterfixed" then iso_counter_fixed else if s = "spec" then iso_spec
  else begin
    let on = String.split_on_char ',' s in
    { d_dec_global = List.mem "dec" on; d_ctr_global = List.mem "ctr" on } end
let gops (s : ostring) : gop list =
  List.map (fun t ->
    let body = String.sub t 1 (String.length t - 1) in
    match t.[0] with
    | 'f' -> GToFixed (z_of_int (int_of_string body))
    | 'n' -> GPrint (z_of_int (int_of_string body))
    | 'c' -> GCounter
    | 'r' -> GCounterReset
    | 's' -> GSet (cstr body)
    | 'i' -> GIsNil (cstr body)
    | 'p' -> GPure (List.map (fun h -> cstr (unhexstr h)) (List.filter (fun x -> x <> "") (String.split_on_char ',' body)))
    | _ -> failwith "bad gop") (List.filter (fun x -> x <> "") (String.split_on_char ' ' s))
let iso sw mode p q : ostring =
  let d = iso_switches sw in
  let pp = gops p and qq = gops q in
  let g = match mode with
    | "alone" -> g0
    | "after" -> after d g0 qq
    | "twice" -> after d g0 pp
    | _ -> failwith "bad mode" in
  let (out, _) = run d g pp in
  ostr (join (cstr "|") out)

let () =
  let mode = if Array.length Sys.argv > 1 then Sys.argv.(1) else "" in
  iter_lines (fun line ->
    try
      match mode, split_tab line with
      | "ctl-text", [prog] ->
        let block = read_block prog in
        Printf.sprintf "%s\t%s" (hexstr (ostr (print_block block))) (ostr (show_code (compile_block block)))
      | "ctl-tree", [sw; base; prog; diag; depth; alphabet] -> ctl_tree sw base prog diag (int_of_string depth) alphabet
      | "ctl-seq", [sw; base; prog; diag; actions] -> ctl_seq sw base prog diag actions
      | "ctl-view", [actions] -> ctl_view actions
      | "api", sw :: tick :: ops -> api sw tick ops
      | "iso", [sw; m; p; q] -> iso sw m p q
      | _ -> "BADLINE"
    with Failure m -> "MODEL-FAIL " ^ m | Invalid_argument m -> "MODEL-FAIL " ^ m)
