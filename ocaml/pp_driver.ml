(* C13/C14 driver: the extracted reference expander / emission model / tokenizer tracker.
   stdin, one case per line:   <cmd> \t <hex main name> \t <namehex>=<contenthex>;... [\t <queries>]
     a file <name> is printed as /T/<name> and included as "/v/<name>" (as harness/h_pp.cpp maps it)
   cmd PP : R=<res> \t A=<res>      res = OK:<hex of rendered output>:<hidden flag 0|1> | ERR:<kind>
            (R = defects repaired, A = as_is)
   cmd LOC: queries = filehex:line:col;...   ->  PP fields, then per query  R=<pos> \t A=<pos>
            pos = filehex:line:col:ub | NOPROV ; and  REC=<0|1><0|1>  (tokenizer recognises exactly the
            emitted #line texts, for R and A)
   cmd FRAME: FRAME \t <len> \t <max>   ->  for m = 0..max (number of next() calls on a frame of <len> instructions):
            <what diag_info_from_position names: index | none | ub>, ';' separated   (PP/FramePos.v) *)
open Pp_model
open Proto

let rec pos_of_int n = if n = 1 then XH else if n land 1 = 0 then XO (pos_of_int (n lsr 1)) else XI (pos_of_int (n lsr 1))
let z_of_int n = if n = 0 then Z0 else if n > 0 then Zpos (pos_of_int n) else Zneg (pos_of_int (-n))
let rec int_of_pos = function XH -> 1 | XO p -> 2 * int_of_pos p | XI p -> 2 * int_of_pos p + 1
let int_of_z = function Z0 -> 0 | Zpos p -> int_of_pos p | Zneg p -> - (int_of_pos p)
let rec nat_of_int n = if n <= 0 then O else S (nat_of_int (n - 1))
let rec int_of_nat = function O -> 0 | S n -> 1 + int_of_nat n

let zs l = List.map z_of_int l
let ints l = List.map int_of_z l
let hx l = hex_of_bytes (ints l)
let str s = zs (List.init (String.length s) (fun i -> Char.code s.[i]))

let err_name = function
  | EArgCount -> "ArgCount" | ERecursiveMacro -> "RecursiveMacro" | EUnknownDirective -> "UnknownDirective"
  | EElse -> "Else" | EEndif -> "Endif" | EMissingEndif -> "MissingEndif" | EIncludeFailed -> "IncludeFailed"
  | ERecursiveInclude -> "RecursiveInclude" | EUnbalanced -> "Unbalanced" | EOutOfFuel -> "OutOfFuel"

let parse_files s =
  if s = "-" || s = "" then [] else
  List.map (fun kv -> match String.split_on_char '=' kv with
      | [k; v] -> (zs (bytes_of_hex k), zs (bytes_of_hex v))
      | _ -> failwith "files") (String.split_on_char ';' s)

let () = iter_lines (fun line ->
  match split_tab line with
  | "FRAME" :: len :: max :: _ ->
    let len = int_of_string len and max = int_of_string max in
    String.concat ";" (List.init (max + 1) (fun m ->
      match fdiag (nat_of_int len) (fafter (nat_of_int len) (nat_of_int m)) with
      | DNone -> "none" | DIndex i -> string_of_int (int_of_nat i) | DUB -> "ub"))
  | cmd :: mainhex :: fileshex :: rest ->
    let files = parse_files fileshex in
    let main = zs (bytes_of_hex mainhex) in
    let vpre = str "/v/" and tpre = str "/T/" in
    let fs path =
      let rec go = function
        | [] -> None
        | (n, c) :: r -> if vpre @ n = path then Some (tpre @ n, c) else go r in
      go files in
    let content = (try List.assoc main files with Not_found -> []) in
    let mainp = tpre @ main in
    let run d = preprocess d fs mainp content in
    let rr = run repaired and ra = run as_is in
    let show = function
      | Ok ((items, _), hidden) -> "OK:" ^ hx (render items) ^ ":" ^ (if hidden then "1" else "0")
      | Err e -> "ERR:" ^ err_name e in
    let base = "R=" ^ show rr ^ "\tA=" ^ show ra in
    if cmd = "PP" then base
    else if cmd = "LOC" then begin
      let queries = match rest with q :: _ when q <> "-" && q <> "" -> String.split_on_char ';' q | _ -> [] in
      let pos d r q =
        match r with
        | Err _ -> "NOPROV"
        | Ok ((items, _), _) ->
          (match String.split_on_char ':' q with
           | [f; l; c] ->
             let p = PSrc (zs (bytes_of_hex f), z_of_int (int_of_string l), z_of_int (int_of_string c)) in
             (match find_prov p items O with
              | None -> "NOPROV"
              | Some i ->
                (match reported d mainp items i with
                 | None -> "NOPROV"
                 | Some t -> hx t.tk_pos.tp_file ^ ":" ^ string_of_int (int_of_z t.tk_pos.tp_line) ^ ":" ^
                             string_of_int (int_of_z t.tk_pos.tp_col) ^ ":" ^ (if t.tk_ub then "1" else "0")))
           | _ -> "BADQUERY") in
      let rec_flag d r = match r with
        | Err _ -> "0"
        | Ok ((items, _), _) -> if recognises d (tk_init mainp) items then "1" else "0" in
      let qs = List.map (fun q -> "R=" ^ pos repaired rr q ^ "\tA=" ^ pos as_is ra q) queries in
      String.concat "\t" (base :: ("REC=" ^ rec_flag repaired rr ^ rec_flag as_is ra) :: qs)
    end else "BADCMD"
  | _ -> "BADLINE")
