(* C15 driver.  One case per line:
     <defects> \t <loads> \t <chunks>
   defects = four chars 0/1: rebind_cycle inherits_logical hierarchy_shape deleted_reopen
   loads   = space separated prefix tokens:  <nloads> { <nnodes> node* }*
             node  = C <hexname> <hexbase|-> <nbody> node*  |  D <hexname>  |  F <hexname> value  |  A <hexname> value
             value = N <int> | S <hex|-> | L <n> value*
   chunks  = <parent>:<flags>:<hexname.hexname...> joined by ','   (empty path = configFile itself;
             flags: 'c' = also evaluate "true" configClasses)
   Output mirrors harness/h_config.cpp:
     R \t <loads> \t <chunk>...      loads: ok:<codes> | UB:<fault> | HANG   chunk: <hex lines>:<codes> | TIMEOUT | UB:<fault> | SKIP | NORUN
   The printed lines are what SQF's `str` prints for the observation arrays of checks/C15.py. *)
open Config_model
open Proto

let rec pos_of_int n = if n = 1 then XH else if n land 1 = 0 then XO (pos_of_int (n lsr 1)) else XI (pos_of_int (n lsr 1))
let z_of_int n = if n = 0 then Z0 else if n > 0 then Zpos (pos_of_int n) else Zneg (pos_of_int (-n))
let rec int_of_pos = function XH -> 1 | XO p -> 2 * int_of_pos p | XI p -> 2 * int_of_pos p + 1
let int_of_z = function Z0 -> 0 | Zpos p -> int_of_pos p | Zneg p -> - (int_of_pos p)
let rec int_of_nat = function O -> 0 | S n -> 1 + int_of_nat n
let rec nat_of_int n = if n <= 0 then O else S (nat_of_int (n - 1))

let zs l = List.map z_of_int l
let name_of_hex s = zs (bytes_of_hex s)
let raw (l : z list) : string = String.concat "" (List.map (fun c -> String.make 1 (Char.chr ((int_of_z c) land 255))) l)

(* ---- what SQF's str prints ---- *)
let quote (s : string) : string =
  "\"" ^ String.concat "\"\"" (String.split_on_char '"' s) ^ "\""
let rec show_val = function
  | VNil -> ""            (* never printed: getNumber/getText/getArray give defaults *)
  | VNum z -> string_of_int (int_of_z z)
  | VStr s -> quote (raw s)
  | VArr l -> "[" ^ String.concat "," (List.map show_val l) ^ "]"
let show_bool b = if b then "true" else "false"

exception Stop of string   (* TIMEOUT | UB:<fault> *)
let fault = function OutOfRange -> "OutOfRange" | DeletedDeref -> "DeletedDeref" | NullNav -> "NullNav" | SelfInsert -> "SelfInsert"
let ok = function Ok a -> a | UB w -> raise (Stop ("UB:" ^ fault w)) | OutOfFuel -> raise (Stop "TIMEOUT")

let codes level (l : z list) = List.map (fun c -> Printf.sprintf "%d.%d" level (int_of_z c)) l
let show_codes l = if l = [] then "-" else String.concat ";" l

(* ---- AST reader ---- *)
let parse_loads (s : string) : node list list =
  let toks = ref (List.filter (fun t -> t <> "") (String.split_on_char ' ' s)) in
  let next () = match !toks with t :: r -> toks := r; t | [] -> failwith "eof" in
  let rec value () =
    match next () with
    | "N" -> NNum (z_of_int (int_of_string (next ())))
    | "S" -> NStr (name_of_hex (next ()))
    | "L" -> let n = int_of_string (next ()) in NArr (List.init n (fun _ -> value ()))
    | t -> failwith ("value " ^ t) in
  let rec node () =
    match next () with
    | "C" -> let n = name_of_hex (next ()) in let b = name_of_hex (next ()) in
             let k = int_of_string (next ()) in NClass (n, b, List.init k (fun _ -> node ()))
    | "D" -> NDelete (name_of_hex (next ()))
    | "F" -> let n = name_of_hex (next ()) in NField (n, value ())
    | "A" -> let n = name_of_hex (next ()) in NAppend (n, value ())
    | t -> failwith ("node " ^ t) in
  let nl = int_of_string (next ()) in
  List.init nl (fun _ -> let k = int_of_string (next ()) in List.init k (fun _ -> node ()))

let defects_of (s : string) : defects =
  { d_rebind_cycle = s.[0] = '1'; d_inherits_logical = s.[1] = '1'; d_hierarchy_shape = s.[2] = '1'; d_deleted_reopen = s.[3] = '1' }

(* ---- one observation chunk (same order of evaluation as the SQF text of checks/C15.py) ---- *)
let chunk (d : defects) (h : host) (flags : string) (path : z list list) : string =
  let warn = ref [] in
  let w level l = warn := !warn @ codes level l in
  let (c, w0) = ok (op_path h (Some O) path) in
  w 2 w0;
  let nm cid = raw (ok (op_name h cid)) in
  let b f = let (v, ws) = ok (f h c) in w 2 ws; show_bool v in
  let isnull = (c = None) in
  let l1_name = nm c in
  let l1_class = b op_isClass in let l1_num = b op_isNumber in let l1_text = b op_isText in let l1_arr = b op_isArray in
  let (gn, ws) = ok (op_getNumber h c) in w 2 ws;
  let (gt, ws) = ok (op_getText h c) in w 2 ws;
  let (ga, ws) = ok (op_getArray h c) in w 2 ws;
  let line1 = "[" ^ String.concat "," [l1_name; show_bool isnull; l1_class; l1_num; l1_text; l1_arr;
                                       string_of_int (int_of_z gn); quote (raw gt); show_val (VArr ga)] ^ "]" in
  let lines = ref [line1] in
  if not isnull then begin
    let (cnt, _) = ok (op_count h c) in
    let n = int_of_nat cnt in
    let sel = List.init (n + 2) (fun k -> let i = k - 1 in
                 let (e, ws) = ok (op_select h c (z_of_int i)) in w 2 ws; nm e) in
    let (cn, _) = ok (op_configName h c) in
    let (inh, _) = ok (op_inheritsFrom d h c) in
    let (hi, _) = ok (op_hierarchy d h c) in
    let his = match hi with
      | HNames l -> "[" ^ String.concat "," (List.map (fun s -> quote (raw s)) l) ^ "]"
      | HConfigs l -> "[" ^ String.concat "," (List.map (fun e -> nm (Some e)) l) ^ "]" in
    lines := !lines @ ["[" ^ String.concat "," [quote (raw cn); string_of_int n; nm inh; his;
                                                 "[" ^ String.concat "," sel ^ "]"] ^ "]"];
    if String.contains flags 'c' then begin
      let (cl, _) = ok (op_configClasses h c) in
      lines := !lines @ ["[" ^ String.concat "," (List.map (fun e -> nm (Some e)) cl) ^ "]"]
    end
  end;
  let text = String.concat "\n" !lines in
  hex_of_bytes (List.init (String.length text) (fun i -> Char.code text.[i])) ^ ":" ^ show_codes !warn

let () = iter_lines (fun line ->
  match split_tab line with
  | [ds; ls; cs] ->
    let d = defects_of ds in
    let lds = parse_loads ls in
    let chunks = if cs = "" then [] else List.map (fun c ->
        match String.split_on_char ':' c with
        | [p; fl; path] -> (int_of_string p, fl, if path = "" then [] else List.map name_of_hex (String.split_on_char '.' path))
        | _ -> failwith "chunk") (String.split_on_char ',' cs) in
    let h = ref init_host in
    let dead = ref false in
    let lres = ref [] in
    List.iter (fun l ->
      if not !dead then
        (match load d (!h, []) l with
         | Ok (h1, lg) -> h := h1; lres := !lres @ ["ok:" ^ show_codes (codes 2 lg)]
         | UB wv -> dead := true; lres := !lres @ ["UB:" ^ fault wv]
         | OutOfFuel -> dead := true; lres := !lres @ ["HANG"])) lds;
    let n = List.length chunks in
    let hung = Array.make (max n 1) false in
    let out = List.mapi (fun i (p, fl, path) ->
        if !dead then "NORUN"
        else if p >= 0 && p < i && hung.(p) then (hung.(i) <- true; "SKIP")
        else (try chunk d !h fl path with Stop s -> (if s = "TIMEOUT" then hung.(i) <- true); s)) chunks in
    String.concat "\t" (["R"; String.concat "," !lres] @ out)
  | _ -> "BADLINE")
