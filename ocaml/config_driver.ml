(* C15 driver.  One case per line:
     <defects> \t <loads> \t <chunks>
   defects = four chars 0/1: rebind_cycle inherits_logical hierarchy_shape deleted_reopen
   loads   = space separated prefix tokens:  <nloads> { <nnodes> node* }*
             node  = C <hexname> <hexbase|-> <nbody> node*  |  D <hexname>  |  F <hexname> value  |  A <hexname> value
             value = N <int> | S <hex|-> | L <n> value*
   chunks  = <parent>:<flags>:<hexname.hexname...> joined by ','   (empty path = configFile itself;
             flags: 'c' = also evaluate "true" configClasses)
   Histories (config values kept across loads) put two more kinds of item into the chunk list, evaluated in order:
     L:<nnodes> node*                a further load between two scripts
     K:<instr>;<instr>...            a script with effects; instr =
          k <slot> <deriv> <path>    keep a config value: path = hexname.hexname... | -  ; deriv = P (the value of the path) |
                                     S<i> (select i) | H<j> (configHierarchy select j) | I (inheritsFrom) | C<j> ("true" configClasses select j)
          p <nnodes> node*           configparse__ of that text
          o <slot> <path|~> <names|-> <mark>   observe the kept value (and, when a path is given, the value navigated afresh and == of the two)
   A config value is a container id (ConfigDefs: "a config value holds a container id"): a kept value is that id, every operator
   reads the host of the moment it is applied.
   Output mirrors harness/h_config.cpp:
     R \t <loads> \t <chunk>...      loads: ok:<codes> | UB:<fault> | HANG   chunk: <hex lines>:<codes> | TIMEOUT | UB:<fault> | SKIP | NORUN
   The printed lines are what SQF's `str` prints for the observation arrays of checks/C15.py. *)
open Config_model
open Proto

let rec pos_of_int n = if n = 1 then XH else if n land 1 = 0 then XO (pos_of_int (n lsr 1)) else XI (pos_of_int (n lsr 1))
let z_of_int n = if n = 0 then Z0 else if n > 0 then Zpos (pos_of_int n) else Zneg (pos_of_int (-n))
let rec int_of_pos = function XH -> 1 | XO p -> 2 * int_of_pos p | XI p -> 2 * int_of_pos p + 1
let int_of_z = function Z0 -> 0 | Zpos p -> int_of_pos p | Zneg p -> - (int_of_pos p)
let rec int_of_nat = function O -> 0 | S n -> 1 + int_of_nat n
let rec nat_of_int n = if n <= 0 then O else S (nat_of_int (n - 1))

let zs l = List.map z_of_int l
let name_of_hex s = zs (bytes_of_hex s)
let raw (l : z list) : string = String.concat "" (List.map (fun c -> String.make 1 (Char.chr ((int_of_z c) land 255))) l)

(* ---- what SQF's str prints ---- *)
let quote (s : string) : string =
  "\"" ^ String.concat "\"\"" (String.split_on_char '"' s) ^ "\""
let rec show_val = function
  | VNil -> ""            (* never printed: getNumber/getText/getArray give defaults *)
  | VNum z -> string_of_int (int_of_z z)
  | VStr s -> quote (raw s)
  | VArr l -> "[" ^ String.concat "," (List.map show_val l) ^ "]"
let show_bool b = if b then "true" else "false"

exception Stop of string   (* TIMEOUT | UB:<fault> *)
let fault = function OutOfRange -> "OutOfRange" | DeletedDeref -> "DeletedDeref" | NullNav -> "NullNav" | SelfInsert -> "SelfInsert"
let ok = function Ok a -> a | UB w -> raise (Stop ("UB:" ^ fault w)) | OutOfFuel -> raise (Stop "TIMEOUT")

let codes level (l : z list) = List.map (fun c -> Printf.sprintf "%d.%d" level (int_of_z c)) l
let show_codes l = if l = [] then "-" else String.concat ";" l

(* ---- AST reader ---- *)
let parse_loads (s : string) : node list list =
  let toks = ref (List.filter (fun t -> t <> "") (String.split_on_char ' ' s)) in
  let next () = match !toks with t :: r -> toks := r; t | [] -> failwith "eof" in
  let rec value () =
    match next () with
    | "N" -> NNum (z_of_int (int_of_string (next ())))
    | "S" -> NStr (name_of_hex (next ()))
    | "L" -> let n = int_of_string (next ()) in NArr (List.init n (fun _ -> value ()))
    | t -> failwith ("value " ^ t) in
  let rec node () =
    match next () with
    | "C" -> let n = name_of_hex (next ()) in let b = name_of_hex (next ()) in
             let k = int_of_string (next ()) in NClass (n, b, List.init k (fun _ -> node ()))
    | "D" -> NDelete (name_of_hex (next ()))
    | "F" -> let n = name_of_hex (next ()) in NField (n, value ())
    | "A" -> let n = name_of_hex (next ()) in NAppend (n, value ())
    | t -> failwith ("node " ^ t) in
  let nl = int_of_string (next ()) in
  List.init nl (fun _ -> let k = int_of_string (next ()) in List.init k (fun _ -> node ()))

let defects_of (s : string) : defects =
  { d_rebind_cycle = s.[0] = '1'; d_inherits_logical = s.[1] = '1'; d_hierarchy_shape = s.[2] = '1'; d_deleted_reopen = s.[3] = '1' }

(* ---- one observation chunk (same order of evaluation as the SQF text of checks/C15.py) ---- *)
type cid = nat option
let hier_str (d : defects) (h : host) (c : cid) : string =
  let nm cid = raw (ok (op_name h cid)) in
  let (hi, _) = ok (op_hierarchy d h c) in
  match hi with
  | HNames l -> "[" ^ String.concat "," (List.map (fun s -> quote (raw s)) l) ^ "]"
  | HConfigs l -> "[" ^ String.concat "," (List.map (fun e -> nm (Some e)) l) ^ "]"

(* lines 1 and 2 of an observation; w collects the diagnostics *)
let observe12 (d : defects) (h : host) (c : cid) (w : int -> z list -> unit) : string list =
  let nm cid = raw (ok (op_name h cid)) in
  let b f = let (v, ws) = ok (f h c) in w 2 ws; show_bool v in
  let isnull = (c = None) in
  let l1_name = nm c in
  let l1_class = b op_isClass in let l1_num = b op_isNumber in let l1_text = b op_isText in let l1_arr = b op_isArray in
  let (gn, ws) = ok (op_getNumber h c) in w 2 ws;
  let (gt, ws) = ok (op_getText h c) in w 2 ws;
  let (ga, ws) = ok (op_getArray h c) in w 2 ws;
  let line1 = "[" ^ String.concat "," [l1_name; show_bool isnull; l1_class; l1_num; l1_text; l1_arr;
                                       string_of_int (int_of_z gn); quote (raw gt); show_val (VArr ga)] ^ "]" in
  if isnull then [line1] else begin
    let (cnt, _) = ok (op_count h c) in
    let n = int_of_nat cnt in
    let sel = List.init (n + 2) (fun k -> let i = k - 1 in
                 let (e, ws) = ok (op_select h c (z_of_int i)) in w 2 ws; nm e) in
    let (cn, _) = ok (op_configName h c) in
    let (inh, _) = ok (op_inheritsFrom d h c) in
    let his = hier_str d h c in
    [line1; "[" ^ String.concat "," [quote (raw cn); string_of_int n; nm inh; his; "[" ^ String.concat "," sel ^ "]"] ^ "]"]
  end

let finish_chunk (lines : string list) (warn : string list) : string =
  let text = String.concat "\n" lines in
  hex_of_bytes (List.init (String.length text) (fun i -> Char.code text.[i])) ^ ":" ^ show_codes warn

let chunk (d : defects) (h : host) (flags : string) (path : z list list) : string =
  let warn = ref [] in
  let w level l = warn := !warn @ codes level l in
  let (c, w0) = ok (op_path h (Some O) path) in
  w 2 w0;
  let nm cid = raw (ok (op_name h cid)) in
  let lines = ref (observe12 d h c w) in
  if c <> None && String.contains flags 'c' then begin
    let (cl, _) = ok (op_configClasses h c) in
    lines := !lines @ ["[" ^ String.concat "," (List.map (fun e -> nm (Some e)) cl) ^ "]"]
  end;
  finish_chunk !lines !warn

(* ---- histories: observation of a kept value (the _obs function of checks/C15.py): lines 1 and 2 as above, then the configHierarchy
   of every class reached by repeating inheritsFrom (at most 40), then the configHierarchy of value >> name for every name ---- *)
let observe_held (d : defects) (h : host) (c : cid) (names : z list list) (w : int -> z list -> unit) : string list =
  let l12 = observe12 d h c w in
  if c = None then l12 else begin
    let chain = ref [] in
    let b = ref (fst (ok (op_inheritsFrom d h c))) in
    let k = ref 0 in
    while !b <> None && !k < 40 do
      chain := !chain @ [hier_str d h !b];
      b := fst (ok (op_inheritsFrom d h !b));
      incr k
    done;
    let looks = List.map (fun t -> let (e, ws) = ok (op_lookup h c t) in w 2 ws;
                            if e = None then "[]" else hier_str d h e) names in
    l12 @ ["[" ^ String.concat "," !chain ^ "]"; "[" ^ String.concat "," looks ^ "]"]
  end

let path_of_string (s : string) : z list list =
  if s = "-" || s = "" then [] else List.map name_of_hex (String.split_on_char '.' s)

(* one script with effects: the host and the kept values change *)
let script (d : defects) (h : host ref) (slots : (int, cid) Hashtbl.t) (prog : string) : string =
  let warn = ref [] in
  let w level l = warn := !warn @ codes level l in
  let lines = ref [] in
  let nth_opt l j = if j < 0 then None else List.nth_opt l j in
  List.iter (fun ins ->
    let ins = String.trim ins in
    if ins <> "" then begin
      let sp = String.index ins ' ' in
      let op = String.sub ins 0 sp and rest = String.sub ins (sp + 1) (String.length ins - sp - 1) in
      match op with
      | "p" ->
        (match parse_loads ("1 " ^ rest) with
         | [l] -> (match load d (!h, []) l with
                   | Ok (h1, lg) -> h := h1; w 2 lg
                   | UB wv -> raise (Stop ("UB:" ^ fault wv))
                   | OutOfFuel -> raise (Stop "TIMEOUT"))
         | _ -> failwith "p")
      | "k" ->
        (match String.split_on_char ' ' rest with
         | [slot; deriv; path] ->
           let (c, w0) = ok (op_path !h (Some O) (path_of_string path)) in
           w 2 w0;
           let arg () = int_of_string (String.sub deriv 1 (String.length deriv - 1)) in
           let v =
             if deriv = "P" || c = None then c
             else match deriv.[0] with
               | 'S' -> let (e, ws) = ok (op_select !h c (z_of_int (arg ()))) in w 2 ws; e
               | 'I' -> fst (ok (op_inheritsFrom d !h c))
               | 'H' -> (match fst (ok (op_hierarchy d !h c)) with
                         | HConfigs l -> (match nth_opt l (arg ()) with Some e -> Some e | None -> None)
                         | HNames _ -> None)
               | 'C' -> (match nth_opt (fst (ok (op_configClasses !h c))) (arg ()) with Some e -> Some e | None -> None)
               | _ -> failwith "deriv" in
           Hashtbl.replace slots (int_of_string slot) v
         | _ -> failwith "k")
      | "o" ->
        (match String.split_on_char ' ' rest with
         | [slot; fresh; names; mark] ->
           let v = (try Hashtbl.find slots (int_of_string slot) with Not_found -> failwith "slot") in
           let ns = path_of_string names in
           lines := !lines @ ["[\"#\"," ^ mark ^ "]"];
           lines := !lines @ observe_held d !h v ns w;
           if fresh <> "~" then begin
             let (f, w0) = ok (op_path !h (Some O) (path_of_string fresh)) in
             w 2 w0;
             lines := !lines @ ["[\"=\"," ^ show_bool (cid_eqb v f) ^ "]"];
             lines := !lines @ observe_held d !h f ns w
           end
         | _ -> failwith "o")
      | _ -> failwith ("instr " ^ op)
    end) (String.split_on_char ';' prog);
  finish_chunk !lines !warn

let () = iter_lines (fun line ->
  match split_tab line with
  | [ds; ls; cs] ->
    let d = defects_of ds in
    let lds = parse_loads ls in
    let chunks = if cs = "" then [] else List.map (fun c ->
        if String.length c > 2 && c.[1] = ':' && (c.[0] = 'L' || c.[0] = 'K')
        then (-1, String.make 1 c.[0] ^ String.sub c 2 (String.length c - 2), [])        (* item with effects: kind + text *)
        else match String.split_on_char ':' c with
        | [p; fl; path] -> (int_of_string p, "C" ^ fl, if path = "" then [] else List.map name_of_hex (String.split_on_char '.' path))
        | _ -> failwith "chunk") (String.split_on_char ',' cs) in
    let h = ref init_host in
    let slots : (int, cid) Hashtbl.t = Hashtbl.create 16 in
    let dead = ref false in
    let lres = ref [] in
    List.iter (fun l ->
      if not !dead then
        (match load d (!h, []) l with
         | Ok (h1, lg) -> h := h1; lres := !lres @ ["ok:" ^ show_codes (codes 2 lg)]
         | UB wv -> dead := true; lres := !lres @ ["UB:" ^ fault wv]
         | OutOfFuel -> dead := true; lres := !lres @ ["HANG"])) lds;
    let n = List.length chunks in
    let hung = Array.make (max n 1) false in
    let out = List.mapi (fun i (p, fl, path) ->
        if !dead then "NORUN"
        else if p >= 0 && p < i && hung.(p) then (hung.(i) <- true; "SKIP")
        else
          let body = String.sub fl 1 (String.length fl - 1) in
          match fl.[0] with
          | 'L' ->
            (match parse_loads ("1 " ^ body) with
             | [l] -> (match load d (!h, []) l with
                       | Ok (h1, lg) -> h := h1; "ok:" ^ show_codes (codes 2 lg)
                       | UB wv -> dead := true; "UB:" ^ fault wv
                       | OutOfFuel -> dead := true; "HANG")
             | _ -> failwith "L")
          | 'K' -> (try script d h slots body with Stop s -> dead := true; s)
          | _ -> (try chunk d !h body path with Stop s -> (if s = "TIMEOUT" then hung.(i) <- true); s)) chunks in
    String.concat "\t" (["R"; String.concat "," !lres] @ out)
  | _ -> "BADLINE")
