(* C17 driver: one archive per line  "<hex file bytes>\t<hex name to read>"  ->
   FAIL | OK \t attrs \t files \t attribute(prefix) \t read *)
open Pbo_model
open Proto

let rec pos_of_int n = if n = 1 then XH else if n land 1 = 0 then XO (pos_of_int (n lsr 1)) else XI (pos_of_int (n lsr 1))
let z_of_int n = if n = 0 then Z0 else if n > 0 then Zpos (pos_of_int n) else Zneg (pos_of_int (-n))
let rec int_of_pos = function XH -> 1 | XO p -> 2 * int_of_pos p | XI p -> 2 * int_of_pos p + 1
let int_of_z = function Z0 -> 0 | Zpos p -> int_of_pos p | Zneg p -> - (int_of_pos p)

let zs l = List.map z_of_int l
let ints l = List.map int_of_z l
let hx l = hex_of_bytes (ints l)
let meth = function MNone -> "n" | MEncrypted -> "e" | MCompressed -> "c" | MVersion -> "v"

let () = iter_lines (fun line ->
  match split_tab line with
  | [fhex; nhex] ->
    let l = zs (bytes_of_hex fhex) in
    let name = zs (bytes_of_hex nhex) in
    (match open0 l with
     | None -> "FAIL"
     | Some p ->
       let ats = String.concat ";" (List.map (fun (k, v) -> hx k ^ "=" ^ hx v) (attributes p)) in
       let fs = String.concat ";" (List.map (fun ((n, m), s) -> hx n ^ ":" ^ meth m ^ ":" ^ string_of_int (int_of_z s)) (files p)) in
       let pre = match attribute p (zs [112;114;101;102;105;120]) with None -> "NONE" | Some v -> "S" ^ hx v in
       let rd = match read_entry l p name with None -> "NONE" | Some d -> "S" ^ hx d in
       let all = String.concat ";" (List.map (fun ((n, _), _) ->
           match read_entry l p n with None -> "NONE" | Some d -> "S" ^ hx d) (files p)) in
       Printf.sprintf "OK\t%s\t%s\t%s\t%s\t%s" ats fs pre rd all)
  | _ -> "BADLINE")
