(* C07/C08 driver.  One case per line, TAB separated fields.

   H <dflags> <nvars> <op> <op> ...      a history; every op is a space separated s-expression
       -> one record per op, TAB separated:
          <status>;<hex sqf text>;<diag names ,>;<hex canonical print of [result] or _>;<var0>;<var1>;...
          status: D done, I outside the modelled fragment (dropped), U undefined behaviour, V diverges
          var:    <hex raw print>:<hex canonical print>:<0|1 raw print depends on iteration order>  |  V  |  U
       (after U / V the run stops)
   P <n> <tree> ...                      2n pool values (first n: one evaluation, last n: a second evaluation)
       -> n fields (one per value i of the first half), each for every value j of all 2n the four characters
          <isEqualTo on the heap 0|1><== 0|1|-><i is nil/NaN free 0|1><value::operator== on the trees 0|1>,
          then 2n fields: hex source text of every value
   T <tree>                              -> hex raw print ; hex canonical print ; hex source text
   E                                     -> the model's table  <message class>:<1 if error level> , ...

   dflags: 6 characters 0/1: append_untested hset_untested rt_arrays_only set_growth_kept delrange_unchecked resize_unchecked *)
open Data_model
open Proto

let rec pos_of_int n = if n = 1 then XH else if n land 1 = 0 then XO (pos_of_int (n lsr 1)) else XI (pos_of_int (n lsr 1))
let z_of_int n = if n = 0 then Z0 else if n > 0 then Zpos (pos_of_int n) else Zneg (pos_of_int (-n))
let rec int_of_pos = function XH -> 1 | XO p -> 2 * int_of_pos p | XI p -> 2 * int_of_pos p + 1
let int_of_z = function Z0 -> 0 | Zpos p -> int_of_pos p | Zneg p -> - (int_of_pos p)
let rec nat_of_int n = if n <= 0 then O else S (nat_of_int (n - 1))
let rec int_of_nat = function O -> 0 | S n -> 1 + int_of_nat n

let zs l = List.map z_of_int l
let hx (l : z list) = hex_of_bytes (List.map int_of_z l)
let unhx s = zs (bytes_of_hex s)

exception Parse of string

(* tokens *)
let tokens s = List.filter (fun t -> t <> "") (String.split_on_char ' ' s)
let tail s k = String.sub s k (String.length s - k)

let scalar_of_token t =
  match t.[0] with
  | 'i' -> SHalf (z_of_int (int_of_string (tail t 1)))
  | 'z' -> SNegZero
  | 'N' -> SNaN (z_of_int (int_of_string (tail t 1)))
  | 'P' -> SPInf
  | 'Q' -> SNInf
  | _ -> raise (Parse ("scalar " ^ t))

let instr_of_token t =
  if String.length t >= 2 && t.[0] = 'p' && t.[1] = 's' then IPushStr (unhx (tail t 2))
  else if t.[0] = 'p' then IPushNum (scalar_of_token (tail t 1))
  else if t.[0] = 'o' then
    (match String.split_on_char ':' (tail t 1) with
     | [k; n] -> IOp (z_of_int (int_of_string k), unhx n)
     | _ -> raise (Parse ("instr " ^ t)))
  else raise (Parse ("instr " ^ t))

let rec parse_tree toks =
  match toks with
  | "n" :: r -> (TNil, r)
  | "t" :: r -> (TBool true, r)
  | "f" :: r -> (TBool false, r)
  | "(" :: "A" :: r -> let (l, r') = parse_trees r in (TArr l, r')
  | "(" :: "M" :: r ->
    let (l, r') = parse_trees r in
    let rec pairs = function [] -> [] | k :: v :: t -> (k, v) :: pairs t | _ -> raise (Parse "odd map") in
    (TMap (pairs l), r')
  | "(" :: "C" :: r ->
    let rec go acc = function
      | ")" :: r' -> (List.rev acc, r')
      | t :: r' -> go (instr_of_token t :: acc) r'
      | [] -> raise (Parse "code") in
    let (c, r') = go [] r in (TCode c, r')
  | t :: r when t.[0] = 's' -> (TStr (unhx (tail t 1)), r)
  | t :: r -> (TNum (scalar_of_token t), r)
  | [] -> raise (Parse "tree")
and parse_trees toks =
  match toks with
  | ")" :: r -> ([], r)
  | _ -> let (t, r) = parse_tree toks in let (l, r') = parse_trees r in (t :: l, r')

let parse_opnd toks =
  match toks with
  | "(" :: "L" :: r -> let (t, r') = parse_tree r in
    (match r' with ")" :: r'' -> (OLit t, r'') | _ -> raise (Parse "L"))
  | "(" :: "S" :: n :: i :: ")" :: r -> (OSel (nat_of_int (int_of_string n), z_of_int (int_of_string i)), r)
  | "(" :: "W" :: n :: ")" :: r -> (OWrap (nat_of_int (int_of_string n)), r)
  | t :: r when t.[0] = 'v' -> (OVar (nat_of_int (int_of_string (tail t 1))), r)
  | _ -> raise (Parse "opnd")

let zi s = z_of_int (int_of_string s)
let ni s = nat_of_int (int_of_string s)

let parse_op s =
  match tokens s with
  | "(" :: name :: r ->
    let o1 r = parse_opnd r in
    let fin r = (match r with [")"] -> () | _ -> raise (Parse ("trailing in " ^ s))) in
    (match name with
     | "set" -> let (t, r) = o1 r in (match r with i :: r -> let (x, r) = o1 r in fin r; OpSet (t, zi i, x) | _ -> raise (Parse s))
     | "pb" -> let (t, r) = o1 r in let (x, r) = o1 r in fin r; OpPushBack (t, x)
     | "pbu" -> let (t, r) = o1 r in let (x, r) = o1 r in fin r; OpPushBackUnique (t, x)
     | "app" -> let (t, r) = o1 r in let (x, r) = o1 r in fin r; OpAppend (t, x)
     | "dela" -> let (t, r) = o1 r in (match r with i :: r -> fin r; OpDeleteAt (t, zi i) | _ -> raise (Parse s))
     | "delr" -> let (t, r) = o1 r in (match r with i :: j :: r -> fin r; OpDeleteRange (t, zi i, zi j) | _ -> raise (Parse s))
     | "rsz" -> let (t, r) = o1 r in (match r with i :: r -> fin r; OpResize (t, zi i) | _ -> raise (Parse s))
     | "rev" -> let (t, r) = o1 r in fin r; OpReverse t
     | "sort" -> let (t, r) = o1 r in (match r with b :: r -> fin r; OpSort (t, b = "t") | _ -> raise (Parse s))
     | "asg" -> (match r with d :: r -> let (x, r) = o1 r in fin r; OpAssign (ni d, x) | _ -> raise (Parse s))
     | "copy" -> (match r with d :: r -> let (x, r) = o1 r in fin r; OpCopy (ni d, x) | _ -> raise (Parse s))
     | "cat" -> (match r with d :: r -> let (x, r) = o1 r in let (y, r) = o1 r in fin r; OpConcat (ni d, x, y) | _ -> raise (Parse s))
     | "minus" -> (match r with d :: r -> let (x, r) = o1 r in let (y, r) = o1 r in fin r; OpMinus (ni d, x, y) | _ -> raise (Parse s))
     | "selr" -> (match r with d :: r -> let (x, r) = o1 r in
                   (match r with i :: j :: r -> fin r; OpSelRange (ni d, x, zi i, zi j) | _ -> raise (Parse s)) | _ -> raise (Parse s))
     | "newmap" -> (match r with d :: r -> fin r; OpNewMap (ni d) | _ -> raise (Parse s))
     | "mfa" -> (match r with d :: r -> let (x, r) = o1 r in fin r; OpMapFromArray (ni d, x) | _ -> raise (Parse s))
     | "keys" -> (match r with d :: r -> let (x, r) = o1 r in fin r; OpKeys (ni d, x) | _ -> raise (Parse s))
     | "getto" -> (match r with d :: r -> let (x, r) = o1 r in let (y, r) = o1 r in fin r; OpGetTo (ni d, x, y) | _ -> raise (Parse s))
     | "iseq" -> let (x, r) = o1 r in let (y, r) = o1 r in fin r; OpIsEqualTo (x, y)
     | "eqeq" -> let (x, r) = o1 r in let (y, r) = o1 r in fin r; OpEqEq (x, y)
     | "find" -> let (x, r) = o1 r in let (y, r) = o1 r in fin r; OpFind (x, y)
     | "in" -> let (x, r) = o1 r in let (y, r) = o1 r in fin r; OpIn (x, y)
     | "count" -> let (x, r) = o1 r in fin r; OpCount x
     | "get" -> let (x, r) = o1 r in let (y, r) = o1 r in fin r; OpGet (x, y)
     | "mset" -> let (m, r) = o1 r in let (k, r) = o1 r in let (x, r) = o1 r in fin r; OpMapSet (m, k, x)
     | "mdel" -> let (m, r) = o1 r in let (k, r) = o1 r in fin r; OpMapDeleteAt (m, k)
     | _ -> raise (Parse ("op " ^ name)))
  | _ -> raise (Parse ("op " ^ s))

let diag_name = function
  | DNegativeIndex -> "NegativeIndex" | DArrayRecursion -> "ArrayRecursion"
  | DIndexOutOfRangeWeak -> "IndexOutOfRangeWeak" | DNegativeIndexWeak -> "NegativeIndexWeak"
  | DStartIndexExceedsToIndexWeak -> "StartIndexExceedsToIndexWeak" | DReturningNil -> "ReturningNil"
  | DReturningEmptyArray -> "ReturningEmptyArray" | DNegativeSize -> "NegativeSize"
  | DExpectedArraySizeMissmatch -> "ExpectedArraySizeMissmatch" | DExpectedArrayTypeMissmatch -> "ExpectedArrayTypeMissmatch"
  | DExpectedArraySizeMissmatchWeak -> "ExpectedArraySizeMissmatchWeak"
  | DExpectedMinimumArraySizeMissmatch -> "ExpectedMinimumArraySizeMissmatch"

let defects_of s =
  let b i = String.length s > i && s.[i] = '1' in
  { d_append_untested = b 0; d_hset_untested = b 1; d_rt_arrays_only = b 2; d_set_growth_kept = b 3;
    d_delrange_unchecked = b 4; d_resize_unchecked = b 5 }

let is_assign = function
  | OpAssign _ | OpCopy _ | OpConcat _ | OpMinus _ | OpSelRange _ | OpNewMap _ | OpMapFromArray _ | OpKeys _ | OpGetTo _ -> true
  | _ -> false

let obs st v =
  match observe st v with
  | Ok t -> hx (print_tree false t) ^ ":" ^ hx (print_tree true t) ^ ":" ^ (if order_sensitive t then "1" else "0")
  | UB -> "U"
  | OutOfFuel -> "V"

let history d nvars ops =
  let st = ref (init_state (nat_of_int nvars)) in
  let out = Buffer.create 1024 in
  let stop = ref false in
  List.iteri (fun i s ->
      if not !stop then begin
        let o = parse_op s in
        let r = step d !st o in
        if i > 0 then Buffer.add_char out '\t';
        let text = hx (render_op o) in
        (match r.o_status with
         | Invalid -> Buffer.add_string out ("I;" ^ text)
         | Undefined -> Buffer.add_string out ("U;" ^ text ^ ";" ^ String.concat "," (List.map diag_name r.o_diags)); stop := true
         | Diverges -> Buffer.add_string out ("V;" ^ text); stop := true
         | Done ->
           st := r.o_state;
           let res = if is_assign o then "_" else
               (match observe !st r.o_result with
                | Ok t -> hx (print_tree true (TArr [t]))
                | UB -> "U" | OutOfFuel -> "V") in
           let vars = List.map (obs !st) !st.st_vars in
           Buffer.add_string out (String.concat ";" (["D"; text; String.concat "," (List.map diag_name r.o_diags); res] @ vars));
           if List.mem "V" vars || List.mem "U" vars || res = "V" then stop := true)
      end) ops;
  Buffer.contents out

let pairs n trees =
  let (h, vals) = List.fold_left (fun (h, acc) t -> let (h', v) = thaw h t in (h', acc @ [v])) ([], []) trees in
  let f = fuel_of h in
  let srcs = List.map (fun t -> hx (render_tree t)) trees in
  let arr_t = Array.of_list trees and arr_v = Array.of_list vals in
  let rows = List.init n (fun i ->
      let b = Buffer.create 256 in
      Array.iteri (fun j _ ->
          let e = (match veq f h arr_v.(i) arr_v.(j) with Ok true -> '1' | Ok false -> '0' | UB -> 'U' | OutOfFuel -> 'V') in
          let q = if eqeq_defined arr_t.(i) arr_t.(j) then (if t_eqeq arr_t.(i) arr_t.(j) then '1' else '0') else '-' in
          let g = if nil_nan_free arr_t.(i) then '1' else '0' in
          let k = if teq arr_t.(i) arr_t.(j) then '1' else '0' in
          Buffer.add_char b e; Buffer.add_char b q; Buffer.add_char b g; Buffer.add_char b k) arr_t;
      Buffer.contents b) in
  String.concat "\t" (rows @ srcs)

let () = iter_lines (fun line ->
    try
      match split_tab line with
      | "H" :: d :: nv :: ops -> history (defects_of d) (int_of_string nv) ops
      | "P" :: n :: trees -> pairs (int_of_string n) (List.map (fun s -> fst (parse_tree (tokens s))) trees)
      | ["T"; t] -> let (tr, _) = parse_tree (tokens t) in
        hx (print_tree false tr) ^ ";" ^ hx (print_tree true tr) ^ ";" ^ hx (render_tree tr)
      | ["E"] -> String.concat "," (List.map (fun d -> diag_name d ^ ":" ^ (if is_error d then "1" else "0"))
                   [DNegativeIndex; DArrayRecursion; DIndexOutOfRangeWeak; DNegativeIndexWeak; DStartIndexExceedsToIndexWeak;
                    DReturningNil; DReturningEmptyArray; DNegativeSize; DExpectedArraySizeMissmatch; DExpectedArrayTypeMissmatch;
                    DExpectedArraySizeMissmatchWeak; DExpectedMinimumArraySizeMissmatch])
      | _ -> "BADLINE"
    with Parse m -> "PARSE " ^ m | Failure m -> "PARSE failure " ^ m)
