(* C10 driver: the extracted mechanism models on the byte string the implementation sees.
   argv[1] = asis | repaired  (which defect setting of the models), -v as the harness.
   stdin:  <routes> \t <hex text> \t <files (ignored)>           (same line the harness gets)
   routes with a model: TOK CTOK (both tokenizers), RD (reader stream), GW (get_word + get_line),
   DEF (one #define line: reader, then the define-line parser)
   stdout: <route>=<class>|<codes>|<payload>  per modelled route, TAB separated, in the harness's format
           (class SOME, codes '-'), or <route>=MODEL:<UB|THROW|STACK|OUTOFFUEL> when the model leaves
           defined behaviour on that route.  Routes without a model are omitted. *)
open Front_model
open Proto

let rec pos_of_int n = if n = 1 then XH else if n land 1 = 0 then XO (pos_of_int (n lsr 1)) else XI (pos_of_int (n lsr 1))
let z_of_int n = if n = 0 then Z0 else if n > 0 then Zpos (pos_of_int n) else Zneg (pos_of_int (-n))
let n_of_int n = if n = 0 then N0 else Npos (pos_of_int n)
let rec int_of_pos = function XH -> 1 | XO p -> 2 * int_of_pos p | XI p -> 2 * int_of_pos p + 1
let int_of_z = function Z0 -> 0 | Zpos p -> int_of_pos p | Zneg p -> - (int_of_pos p)
let int_of_n = function N0 -> 0 | Npos p -> int_of_pos p
let nat_of_int n = let rec go k acc = if k <= 0 then acc else go (k - 1) (S acc) in go n O

let verbose = ref false
let fnv (s : string) : string =
  let h = ref 0xcbf29ce484222325L in
  String.iter (fun c -> h := Int64.mul (Int64.logxor !h (Int64.of_int (Char.code c))) 0x100000001b3L) s;
  Printf.sprintf "%016Lx" !h
let pay n listing = string_of_int n ^ "." ^ fnv listing ^ (if !verbose then ":" ^ (if listing = "" then "-" else listing) else "")
let bad = function BUb -> "UB" | BThrow -> "THROW" | BStack -> "STACK"

let text_of_hex h =
  if h = "-" then "" else String.init (String.length h / 2) (fun i -> Char.chr (int_of_string ("0x" ^ String.sub h (2 * i) 2)))

let () =
  let d = ref repaired and rd = ref rrepaired in
  (* stack budget of the recursive reader as it stands, in re-entries (8 MB / about 48 bytes a frame) *)
  let budget = n_of_int 150000 in
  Array.iteri (fun i a -> if i > 0 then (if a = "asis" then (d := as_is; rd := ras_is) else if a = "repaired" then (d := repaired; rd := rrepaired) else if a = "-v" then verbose := true)) Sys.argv;
  iter_lines (fun line ->
    match split_tab line with
    | routes :: h :: _ ->
      let s = text_of_hex h in
      let len = String.length s in
      let get i = let k = int_of_n i in if k < len then Some (z_of_int (Char.code s.[k])) else None in
      let fl = nat_of_int (2 * len + 4) in
      let nlen = n_of_int len in
      let st0 = { r_off = N0; r_str = false; r_blk = false } in
      let str_of l = String.concat "" (List.map (fun c -> String.make 1 (Char.chr ((int_of_z c) land 255))) l) in
      let hexs s = if s = "" then "-" else String.concat "" (List.init (String.length s) (fun i -> Printf.sprintf "%02x" (Char.code s.[i]))) in
      let payh n listing = string_of_int n ^ "." ^ fnv listing ^ (if !verbose then ":" ^ hexs listing else "") in
      let fail = function Failed b -> "MODEL:" ^ bad b | _ -> "MODEL:OUTOFFUEL" in
      let rdr () =
        match stream !rd budget get fl fl st0 with
        | Done (l, e) -> let t = str_of l in "SOME|-|" ^ payh (String.length t) t ^ "." ^ string_of_int (int_of_n e.r_off)
        | x -> fail x in
      let gw () =
        match get_word !rd budget get nlen fl st0 with
        | Done (w, st1) ->
          (match get_line !rd budget get fl st1 with
           | Done (ln, st2) -> let t = str_of w ^ "\000" ^ str_of ln in "SOME|-|" ^ payh (String.length t) t ^ "." ^ string_of_int (int_of_n st2.r_off)
           | x -> fail x)
        | x -> fail x in
      let upper s = String.uppercase_ascii s in
      let def () =
        (* parse_file reads the '#', parse_ppinstruction the directive name and the line *)
        match next_char !rd budget get fl st0 with
        | Done (c, st1) when int_of_z c = 35 ->
          (match get_word !rd budget get nlen fl st1 with
           | Done (w, st2) when upper (str_of w) = "DEFINE" ->
             (match get_line !rd budget get fl st2 with
              | Done (ln, _) ->
                let line = trim_l ln in
                (match parse_define !rd line (nat_of_int (List.length line + 2)) with
                 | Done ((name, args), body) ->
                   let item = hexs (str_of name) ^ (match args with None -> "" | Some a -> "(" ^ String.concat "," (List.map (fun x -> hexs (str_of x)) a) ^ ")") ^ "=" ^ hexs (str_of body) ^ ";" in
                   "SOME|-|" ^ pay 1 item
                 | x -> fail x)
              | x -> fail x)
           | Done _ -> "SKIP"
           | x -> fail x)
        | Done _ -> "SKIP"
        | x -> fail x in
      let rs = if routes = "ALL" then ["TOK"; "CTOK"; "RD"; "GW"] else String.split_on_char ',' routes in
      let tok l =
        match lex !d get nlen fl l with
        | Done ts ->
          let b = Buffer.create 256 in
          List.iter (fun ((t, o), k) -> Buffer.add_string b (Printf.sprintf "%d,%d,%d;" (int_of_n (code l t)) (int_of_n o) (int_of_n k))) ts;
          "SOME|-|" ^ pay (List.length ts) (Buffer.contents b)
        | Failed b -> "MODEL:" ^ bad b
        | OutOfFuel -> "MODEL:OUTOFFUEL" in
      let one r = match r with
        | "TOK" -> Some (r ^ "=" ^ tok LSqf)
        | "CTOK" -> Some (r ^ "=" ^ tok LCfg)
        | "RD" -> Some (r ^ "=" ^ rdr ())
        | "GW" -> Some (r ^ "=" ^ gw ())
        | "DEF" -> Some (r ^ "=" ^ def ())
        | _ -> None in
      String.concat "\t" (List.filter_map one rs)
    | _ -> "BADLINE")
