(* C16 driver. One case per line (TAB separated):
     kind  tree  setup  request  curp  curv
   kind    fs | info | loadFile | preprocessFile | preprocessFileLineNumbers | execVM | include | cli
   tree    ';'-separated  F:<hexpath>:<hexcontent> | D:<hexpath>     (absolute paths under /tmp/@@)
   setup   ';'-separated  M:<hexphys>:<hexvirt> | P:<hexpbopath>:<hexprefix|NONE>:<hexname>=<hexcontent>,...
   request hex; for `include` the text handed to the preprocessor, for `fs` the path string
           (curp = second operand of operator/), for `cli` the bytes of config.cpp
   Output: <result under `repaired`> TAB || TAB <result under `as_is`>                         *)
open Vfs_model
open Proto

let rec pos_of_int n = if n = 1 then XH else if n land 1 = 0 then XO (pos_of_int (n lsr 1)) else XI (pos_of_int (n lsr 1))
let z_of_int n = if n = 0 then Z0 else if n > 0 then Zpos (pos_of_int n) else Zneg (pos_of_int (-n))
let rec int_of_pos = function XH -> 1 | XO p -> 2 * int_of_pos p | XI p -> 2 * int_of_pos p + 1
let int_of_z = function Z0 -> 0 | Zpos p -> int_of_pos p | Zneg p -> - (int_of_pos p)
let rec nat_of_int n = if n <= 0 then O else S (nat_of_int (n - 1))
let rec int_of_nat = function O -> 0 | S n -> 1 + int_of_nat n

let zs h = List.map z_of_int (bytes_of_hex h)
let hx l = hex_of_bytes (List.map int_of_z l)
let split_c c s = if s = "" || s = "-" then [] else String.split_on_char c s

type entry = { segs : z list list; dir : bool; content : z list }

let segs_of_path (p : z list) : z list list = List.filter (fun s -> s <> []) (split_on sL p)

let parse_tree (s : string) : entry list =
  List.map (fun e ->
      match String.split_on_char ':' e with
      | ["F"; p; c] -> { segs = segs_of_path (zs p); dir = false; content = zs c }
      | ["D"; p] -> { segs = segs_of_path (zs p); dir = true; content = [] }
      | _ -> failwith "tree") (split_c ';' s)

type step = M of z list * z list | P of pbo * z list list

let parse_setup (s : string) : step list =
  List.map (fun e ->
      match String.split_on_char ':' e with
      | ["M"; p; v] -> M (zs p, zs v)
      | ["P"; p; pre; ents] ->
        let es = List.map (fun ne -> match String.split_on_char '=' ne with
            | [n; c] -> (zs n, zs c) | _ -> failwith "pbo entry") (split_c ',' ents) in
        P ({ pbo_path = zs p; pbo_prefix = (if pre = "NONE" then None else Some (zs pre)); pbo_names = List.map fst es },
           List.map snd es)
      | _ -> failwith "setup") (split_c ';' s)

let cwd = [zs "746d70"; zs "4040"]

let pp_str = function
  | PPOk ls -> "OK:" ^ String.concat "," (List.map hx ls)
  | PPFail -> "FAIL"
  | PPThrow -> "THROW"
  | PPUB l -> "UB" ^ string_of_int (int_of_z l)
  | PPFuel -> "FUEL"

let run (d : defects) (kind : string) (tree : entry list) (setup : step list) (req : z list) (curp : z list) (curv : z list) : string =
  let t : tree = List.map (fun e -> (e.segs, e.dir)) tree in
  let fsk p = os_kind t cwd p in
  (* build the VFS *)
  let pbos = ref [] in
  let vfs = List.fold_left (fun acc st ->
      match acc with
      | Ok v -> (match st with
          | M (p, vv) -> Ok (add_mapping d v p vv)
          | P (pb, conts) -> pbos := (lexnorm pb.pbo_path, conts) :: !pbos; add_pbo d v pb)
      | x -> x) (Ok vfs_empty) setup in
  let cont (r : rd) : z list =
    match r with
    | RdDisk p ->
      let start = if has_root p then [] else List.rev cwd in
      (match os_walk t (split_on sL p) start with
       | Some cur -> (match List.find_opt (fun e -> e.segs = List.rev cur) tree with Some e -> e.content | None -> [])
       | None -> [])
    | RdPbo (k, i) -> (match List.assoc_opt k !pbos with
        | Some cs -> (try List.nth cs (int_of_nat i) with _ -> [])
        | None -> [])
    | RdDirThrow | RdEmpty -> [] in
  let fuel = nat_of_int 12 in
  match vfs with
  | UB l -> "SETUP-UB" ^ string_of_int (int_of_z l)
  | Throw l -> "SETUP-THROW" ^ string_of_int (int_of_z l)
  | Ok v ->
    let opres = function
      | ONotFound -> "NF"
      | OText s -> "TEXT\t" ^ hx s
      | OPre p -> "PRE\t" ^ pp_str p
      | ORun p -> "RUN\t" ^ pp_str p
      | ORunArg a -> "RUNARG\t" ^ hx a
      | OThrow -> "THROW"
      | OUB l -> "UB" ^ string_of_int (int_of_z l) in
    (match kind with
     | "info" ->
       (match get_info d fsk v req curp curv with
        | Ok None -> "NONE"
        | Ok (Some (p, vv)) ->
          let r = (match read_file d fsk v p vv with
              | Ok RdDirThrow -> "DIRTHROW"
              | Ok r -> "C" ^ hx (cont r)
              | UB l -> "UB" ^ string_of_int (int_of_z l)
              | Throw l -> "THROW" ^ string_of_int (int_of_z l)) in
          "OK\t" ^ hx p ^ "\t" ^ hx vv ^ "\t" ^ r
        | UB l -> "UB" ^ string_of_int (int_of_z l)
        | Throw l -> "THROW" ^ string_of_int (int_of_z l))
     | "loadFile" -> opres (op_loadfile d fsk cont v req)
     | "preprocessFile" | "preprocessFileLineNumbers" -> opres (op_preprocess d fsk cont fuel v req)
     | "execVM" -> opres (op_execvm d fsk cont fuel v req)
     | "include" -> pp_str (op_include d fsk cont fuel v curp curv req)
     | _ -> "BADKIND")

let () = iter_lines (fun line ->
    match split_tab line with
    | [kind; tree; setup; req; curp; curv] ->
      if kind = "fs" then begin
        let s = zs req and b = zs curp in
        let n = lexnorm s in
        String.concat "\t" [ hx n; String.concat "," (List.map hx (pcomps s)); String.concat "," (List.map hx (pcomps n));
                             hx (parent_path s); hx (extension s); hx (relative_path n); (if is_rel s then "1" else "0");
                             hx (pjoin s b); String.concat "," (List.map hx (gsplit s)) ]
      end else if kind = "cli" then
        hx (cli_pbo_config repaired (zs req)) ^ "\t||\t" ^ hx (cli_pbo_config as_is (zs req))
      else begin
        let tr = parse_tree tree and st = parse_setup setup in
        let r1 = run repaired kind tr st (zs req) (zs curp) (zs curv) in
        let r2 = run as_is kind tr st (zs req) (zs curp) (zs curv) in
        r1 ^ "\t||\t" ^ r2
      end
    | _ -> "BADLINE")
