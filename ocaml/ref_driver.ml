(* reference-semantics driver (C02): "<fuel> \t <program tokens>" -> hex(text) \t observation of RefSem.run_ref *)
open Proto
type ostring = string
open Ref_model

let rec pos_of_int n = if n = 1 then XH else if n land 1 = 0 then XO (pos_of_int (n lsr 1)) else XI (pos_of_int (n lsr 1))
let z_of_int n = if n = 0 then Z0 else if n > 0 then Zpos (pos_of_int n) else Zneg (pos_of_int (-n))
let rec nat_of_int n = if n <= 0 then O else S (nat_of_int (n - 1))
let ascii_of_char c =
  let n = Char.code c in
  let b i = (n lsr i) land 1 = 1 in
  Ascii (b 0, b 1, b 2, b 3, b 4, b 5, b 6, b 7)
let char_of_ascii (Ascii (a, b, c, d, e, f, g, h)) =
  let v x i = if x then 1 lsl i else 0 in
  Char.chr (v a 0 + v b 1 + v c 2 + v d 3 + v e 4 + v f 5 + v g 6 + v h 7)
let cstr (s : ostring) : string =
  let r = ref EmptyString in
  for i = String.length s - 1 downto 0 do r := String (ascii_of_char s.[i], !r) done; !r
let ostr (s : string) : ostring =
  let b = Buffer.create 64 in
  let rec go = function EmptyString -> () | String (c, r) -> Buffer.add_char b (char_of_ascii c); go r in
  go s; Buffer.contents b
let hexstr s = hex_of_bytes (List.init (String.length s) (fun i -> Char.code s.[i]))
let unhexstr h = let l = bytes_of_hex h in String.init (List.length l) (fun i -> Char.chr (List.nth l i))

(* token stream reader *)
let toks = ref [||] and tp = ref 0
let next () = let t = !toks.(!tp) in incr tp; t
let rec rexpr () : expr =
  match next () with
  | "N" -> ENum (z_of_int (int_of_string (next ())))
  | "T" -> EBool true | "F" -> EBool false
  | "S" -> EStr (cstr (unhexstr (next ())))
  | "V" -> EVar (cstr (next ()))
  | "A" -> let n = int_of_string (next ()) in EArr (List.init n (fun _ -> rexpr ()))
  | "C" -> let n = int_of_string (next ()) in ECode (List.init n (fun _ -> rstmt ()))
  | "0" -> ENular (cstr (next ()))
  | "1" -> let n = next () in let e = rexpr () in EUnary (cstr n, e)
  | "2" -> let n = next () in let l = rexpr () in let r = rexpr () in EBinary (cstr n, l, r)
  | t -> failwith ("bad expr token " ^ t)
and rstmt () : stmt =
  match next () with
  | "E" -> SExpr (rexpr ())
  | "=" -> let n = next () in SAssign (cstr n, rexpr ())
  | "L" -> let n = next () in SLocal (cstr n, rexpr ())
  | t -> failwith ("bad stmt token " ^ t)

let () = iter_lines (fun line ->
  match split_tab line with
  | [fuel; prog] ->
    toks := Array.of_list (List.filter (fun s -> s <> "") (String.split_on_char ' ' prog));
    tp := 0;
    let n = int_of_string (next ()) in
    let block = List.init n (fun _ -> rstmt ()) in
    let text = ostr (print_block block) in
    Printf.sprintf "%s\t%s" (hexstr text) (ostr (run_ref (nat_of_int (int_of_string fuel)) block))
  | _ -> "BADLINE")
