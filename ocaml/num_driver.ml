(* C06 (value half) driver. One case per line:
     FMT \t <8 hex digits: binary32 pattern>      -> hex of fmt_g6
     RT  \t <value>                               -> hex of str_value \t read_all repaired \t read_all as_is
     LIT \t <hex of SQF text>                     -> four fields "read_all df | warn df", df = repaired, as_is,
                                                     {strtof, prefix keywords}, {stod, whole keywords}
   <value> = prefix form, blank separated:  B0 | B1 | S<hex> | N<8 hex> | Nnan | A<n> v1 .. vn
   a result = OK <value> | FAIL | FUEL;  warn = 0/1 when the text is a single number token, else - *)
open Num_model
open Proto

let rec pos_of_int n = if n = 1 then XH else if n land 1 = 0 then XO (pos_of_int (n lsr 1)) else XI (pos_of_int (n lsr 1))
let z_of_int n = if n = 0 then Z0 else if n > 0 then Zpos (pos_of_int n) else Zneg (pos_of_int (-n))
let rec int_of_pos = function XH -> 1 | XO p -> 2 * int_of_pos p | XI p -> 2 * int_of_pos p + 1
let int_of_z = function Z0 -> 0 | Zpos p -> int_of_pos p | Zneg p -> - (int_of_pos p)
let zs l = List.map z_of_int l
let ints l = List.map int_of_z l
let hx l = hex_of_bytes (ints l)

let is_nan = function S754_nan -> true | _ -> false
let enc_num x = if is_nan x then "Nnan" else Printf.sprintf "N%08x" (int_of_z (encode32 x))
let rec enc v = match v with
  | VBool b -> if b then "B1" else "B0"
  | VStr s -> "S" ^ hx s
  | VNum x -> enc_num x
  | VArr l -> String.concat " " (("A" ^ string_of_int (List.length l)) :: List.map enc l)

let rec dec_value (ts : string list) : value * string list =
  match ts with
  | [] -> failwith "value"
  | t :: r ->
    let body = String.sub t 1 (String.length t - 1) in
    (match t.[0] with
     | 'B' -> (VBool (body = "1"), r)
     | 'S' -> (VStr (zs (bytes_of_hex body)), r)
     | 'N' -> if body = "nan" then (VNum S754_nan, r) else (VNum (decode32 (z_of_int (int_of_string ("0x" ^ body)))), r)
     | 'A' ->
       let n = int_of_string body in
       let rec go k acc r = if k = 0 then (VArr (List.rev acc), r) else let (v, r') = dec_value r in go (k - 1) (v :: acc) r' in
       go n [] r
     | _ -> failwith "value")

let res_str = function Ok v -> "OK " ^ enc v | Fail -> "FAIL" | OutOfFuel -> "FUEL"

let warn df text =
  match next_tok df text with
  | (TNum t, r) -> (match next_tok df r with (TEof, _) -> if snd (lit_num df t) then "1" else "0" | _ -> "-")
  | (THex t, r) -> (match next_tok df r with (TEof, _) -> if snd (lit_hex t) then "1" else "0" | _ -> "-")
  | _ -> "-"

(* the four settings of the two defect switches, in the order: repaired, as_is, (strtof rule, prefix keywords),
   (stod rule, whole keywords) *)
let settings = [ repaired; as_is; { d_stod_cast = false; d_kw_prefix = true }; { d_stod_cast = true; d_kw_prefix = false } ]

let () = iter_lines (fun line ->
  try
    match split_tab line with
    | ["FMT"; bits] -> hx (fmt_g6 (decode32 (z_of_int (int_of_string ("0x" ^ bits)))))
    | ["RT"; v] ->
      let (v, _) = dec_value (List.filter (fun s -> s <> "") (String.split_on_char ' ' v)) in
      let text = str_value v in
      Printf.sprintf "%s\t%s\t%s" (hx text) (res_str (read_all repaired text)) (res_str (read_all as_is text))
    | ["LIT"; src] ->
      let text = zs (bytes_of_hex src) in
      String.concat "\t" (List.map (fun df -> res_str (read_all df text) ^ "|" ^ warn df text) settings)
    | _ -> "BADLINE"
  with Failure m -> "BADLINE " ^ m)
