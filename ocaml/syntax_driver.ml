(* C01 / C06-code driver: the extracted front-end model on the same text the implementation sees.
   argv[1] = registry dump of the harness (h_syntax dump-registry), so both sides use the same
   operator table (including the harness's extra operators).
   stdin: "<mode>\t<hex text>"
     T  raw tokens      OK \t <type>:<hex contents> ... (eof:- | invalid:-)   | UNSUPPORTED
     A  listing         OK \t <listing> | PARSEERROR | UNSUPPORTED | OUTOFFUEL | UB      (parser as it stands)
     R  listing         same, parser with the recorded defect repaired
     S  str             OK \t <listing> \t <hex text of str {code}>   (literals wrapped in \001 kind text \002)
     P  pretty          OK \t <hex pretty text>
     Q  pretty as the repository's formatter stands (no parentheses)  OK \t <hex text>
   Literals in listings: PL:<neg 0|1>:<kind N|H|S|T|F>:<hex source text>; the orchestrator canonicalises them. *)
open Syntax_model
open Proto

let rec pos_of_int n = if n = 1 then XH else if n land 1 = 0 then XO (pos_of_int (n lsr 1)) else XI (pos_of_int (n lsr 1))
let z_of_int n = if n = 0 then Z0 else if n > 0 then Zpos (pos_of_int n) else Zneg (pos_of_int (-n))
let rec int_of_pos = function XH -> 1 | XO p -> 2 * int_of_pos p | XI p -> 2 * int_of_pos p + 1
let int_of_z = function Z0 -> 0 | Zpos p -> int_of_pos p | Zneg p -> - (int_of_pos p)
let rec nat_of_int n = if n <= 0 then O else S (nat_of_int (n - 1))
let rec int_of_nat = function O -> 0 | S n -> 1 + int_of_nat n

let zs l = List.map z_of_int l
let ints l = List.map int_of_z l
let hx l = hex_of_bytes (ints l)
let str_of l = String.concat "" (List.map (fun c -> String.make 1 (Char.chr (c land 255))) (ints l))
let zs_of_string s = zs (List.init (String.length s) (fun i -> Char.code s.[i]))

(* registry: name -> (first-overload precedence option, unary, nular) *)
let tbl : (string, (int option * bool * bool)) Hashtbl.t = Hashtbl.create 4096
let load_registry path =
  let ic = open_in path in
  (try while true do
     let l = input_line ic in
     match String.split_on_char ' ' l with
     | "B" :: h :: p :: idx :: _ ->
       let n = str_of (zs (bytes_of_hex h)) in
       let (b, u, nu) = try Hashtbl.find tbl n with Not_found -> (None, false, false) in
       if int_of_string idx = 0 then Hashtbl.replace tbl n (Some (int_of_string p), u, nu)
       else if b = None then Hashtbl.replace tbl n (b, u, nu)
     | "U" :: h :: _ ->
       let n = str_of (zs (bytes_of_hex h)) in
       let (b, _, nu) = try Hashtbl.find tbl n with Not_found -> (None, false, false) in
       Hashtbl.replace tbl n (b, true, nu)
     | "N" :: h :: _ ->
       let n = str_of (zs (bytes_of_hex h)) in
       let (b, u, _) = try Hashtbl.find tbl n with Not_found -> (None, false, false) in
       Hashtbl.replace tbl n (b, u, true)
     | _ -> ()
   done with End_of_file -> ());
  close_in ic
let registry (name : z list) : opinfo =
  match (try Some (Hashtbl.find tbl (str_of name)) with Not_found -> None) with
  | Some (b, u, n) -> { oi_bin = (match b with Some p -> Some (nat_of_int p) | None -> None); oi_un = u; oi_nul = n }
  | None -> { oi_bin = None; oi_un = false; oi_nul = false }

let fuel = nat_of_int 30000

let tokname = function
  | RTrue _ -> "true" | RFalse _ -> "false" | RPrivate _ -> "private"
  | RCurlyO -> "{" | RCurlyC -> "}" | RRoundO -> "(" | RRoundC -> ")" | RSquareO -> "[" | RSquareC -> "]"
  | RSemi -> ";" | RComma -> "," | REqual -> "=" | ROp _ -> "op" | RStr _ -> "str" | RIdent _ -> "id"
  | RNum _ -> "num" | RHex _ -> "hex"
let show_toks ts = String.concat "" (List.map (fun t -> tokname t ^ ":" ^ hx (rtok_text t) ^ " ") ts)

let lit_str neg l =
  let (k, s) = match l with LNum s -> ("N", s) | LHex s -> ("H", s) | LStr s -> ("S", s) | LTrue s -> ("T", s) | LFalse s -> ("F", s) in
  Printf.sprintf "PL:%d:%s:%s" (if neg then 1 else 0) k (hx s)
let rec listing (c : instr list) : string = String.concat "" (List.map (fun i -> one i ^ " ") c)
and one = function
  | IPush (PLit (neg, l)) -> lit_str neg l
  | IPush (PCode c) -> "PC[ " ^ listing c ^ "]"
  | ICallNular s -> "N:" ^ hx s
  | ICallUnary s -> "U:" ^ hx s
  | ICallBinary (s, p) -> "B:" ^ hx s ^ ":" ^ string_of_int (int_of_nat p)
  | IGetVar s -> "G:" ^ hx s
  | IAssignTo s -> "A:" ^ hx s
  | IAssignToLocal s -> "L:" ^ hx s
  | IMakeArray n -> "M:" ^ string_of_int (int_of_nat n)
  | IEndStatement -> "E"

(* the printed form of a literal is decided by the orchestrator: wrap it *)
let mark k s = zs [1] @ zs_of_string k @ s @ zs [2]
let show_lit = function
  | LNum s -> LNum (mark "N" s) | LHex s -> LNum (mark "H" s) | LStr s -> LStr (mark "S" s)
  | LTrue s -> LTrue (mark "T" s) | LFalse s -> LFalse (mark "F" s)

let with_parse d text k =
  match parse_text d registry fuel text with
  | FOk ss -> k ss
  | FParseError -> "PARSEERROR"
  | FUnsupported -> "UNSUPPORTED"
  | FOutOfFuel -> "OUTOFFUEL"

let () =
  if Array.length Sys.argv > 1 then load_registry Sys.argv.(1);
  iter_lines (fun line ->
  match split_tab line with
  | [mode; thex] ->
    let text = zs (bytes_of_hex thex) in
    (match mode with
     | "T" -> (match lex text with
               | LexOk ts -> "OK\t" ^ show_toks ts ^ "eof:- "
               | LexInvalid ts -> "OK\t" ^ show_toks ts ^ "invalid:- "
               | LexUnsupported -> "UNSUPPORTED"
               | LexOutOfFuel -> "OUTOFFUEL")
     | "A" | "R" ->
       with_parse (if mode = "A" then as_is else repaired) text (fun ss ->
         match compile_block ss with
         | Some c ->
           (* the declarative post-order must agree (theorem compile_postorder); checked here as well *)
           if c = postorder_block ss then "OK\t" ^ listing c else "MODEL-POSTORDER-MISMATCH"
         | None -> "UB")
     | "S" ->
       with_parse as_is text (fun ss ->
         match compile_block ss with
         | Some c -> (match reconstruct show_lit c with
                      | Some ps -> "OK\t" ^ listing c ^ "\t" ^ hx (pieces_text ps)
                      | None -> "OK\t" ^ listing c ^ "\tNONE")
         | None -> "UB")
     | "P" -> with_parse as_is text (fun ss -> "OK\t" ^ hx (pieces_text (pretty_program ss)))
     | "Q" -> with_parse as_is text (fun ss -> "OK\t" ^ hx (pieces_text (pretty_asis_program ss)))
     | _ -> "BADMODE")
  | _ -> "BADLINE")
