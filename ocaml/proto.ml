(* line protocol helpers shared by all drivers: TAB-separated fields, hex-encoded bytes *)
let hex_of_bytes (l : int list) : string =
  if l = [] then "-" else begin
    let b = Buffer.create (2 * List.length l) in
    List.iter (fun c -> Buffer.add_string b (Printf.sprintf "%02x" (c land 255))) l;
    Buffer.contents b end

let bytes_of_hex (s : string) : int list =
  if s = "-" then [] else begin
    let n = String.length s / 2 in
    let rec go i acc = if i < 0 then acc else go (i - 1) (int_of_string ("0x" ^ String.sub s (2 * i) 2) :: acc) in
    go (n - 1) [] end

let split_tab (s : string) : string list = String.split_on_char '\t' s

let iter_lines (f : string -> string) : unit =
  try
    while true do
      let l = input_line stdin in
      (try print_string (f l) with
       | Stack_overflow -> print_string "MODEL-STACKOVERFLOW"
       | Not_found -> print_string "MODEL-EXC");
      print_newline ()
    done
  with End_of_file -> ()
