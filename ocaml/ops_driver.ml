(* C09 driver: one guard-model / dispatch evaluation per line.
     <defect flags: 10 chars 0/1, order of the record Ops.OpsBase.defects> \t <op> \t <arg> ...
   values:  N<decimal k> = the float k * 2^-149 | Qnan | Qpinf | Qninf | S<hex bytes> | B0 | B1 | O<type tag> | A(<v>,<v>,...)
   answers: R;<level:code,...|->;<res>;<alloc>  |  UB;<why>  |  THROW;<why>  |  FUEL  |  other op specific forms *)
open Ops_model
open Proto

let rec pos_of_int n = if n = 1 then XH else if n land 1 = 0 then XO (pos_of_int (n lsr 1)) else XI (pos_of_int (n lsr 1))
let z_of_int n = if n = 0 then Z0 else if n > 0 then Zpos (pos_of_int n) else Zneg (pos_of_int (-n))
let rec int_of_pos = function XH -> 1 | XO p -> 2 * int_of_pos p | XI p -> 2 * int_of_pos p + 1
let rec bits_of_pos = function XH -> 1 | XO p -> 1 + bits_of_pos p | XI p -> 1 + bits_of_pos p
let string_of_z = function
  | Z0 -> "0"
  | Zpos p -> if bits_of_pos p > 61 then "big" else string_of_int (int_of_pos p)
  | Zneg p -> if bits_of_pos p > 61 then "-big" else string_of_int (- (int_of_pos p))
(* decimal text of any length -> Z, with the model's own arithmetic *)
let z_of_dec (s : Stdlib.String.t) : z =
  let neg = String.length s > 0 && s.[0] = '-' in
  let ten = z_of_int 10 in
  let acc = ref Z0 in
  String.iteri (fun i c -> if i = 0 && neg then () else acc := Z.add (Z.mul !acc ten) (z_of_int (Char.code c - 48))) s;
  if neg then Z.opp !acc else !acc

(* Coq strings *)
let coq_of_char (c : char) : ascii =
  let n = Char.code c in
  let b i = (n lsr i) land 1 = 1 in
  Ascii (b 0, b 1, b 2, b 3, b 4, b 5, b 6, b 7)
let char_of_coq (Ascii (b0, b1, b2, b3, b4, b5, b6, b7)) : char =
  let v b i = if b then 1 lsl i else 0 in
  Char.chr (v b0 0 + v b1 1 + v b2 2 + v b3 3 + v b4 4 + v b5 5 + v b6 6 + v b7 7)
let coq_of_string (s : Stdlib.String.t) : string =
  let r = ref EmptyString in
  for i = Stdlib.String.length s - 1 downto 0 do r := String (coq_of_char s.[i], !r) done; !r
let rec string_of_coq (s : string) : Stdlib.String.t =
  match s with EmptyString -> "" | String (c, r) -> Stdlib.String.make 1 (char_of_coq c) ^ string_of_coq r

let zs l = List.map z_of_int l
let bytes h = zs (bytes_of_hex h)

(* value parser *)
exception Bad of Stdlib.String.t
let parse_fl (s : Stdlib.String.t) : fl =
  if s = "Qnan" then FNan else if s = "Qpinf" then FPInf else if s = "Qninf" then FNInf
  else if Stdlib.String.length s > 1 && s.[0] = 'N' then FFin (z_of_dec (Stdlib.String.sub s 1 (Stdlib.String.length s - 1)))
  else raise (Bad s)
let parse_val (s : Stdlib.String.t) : val0 =
  let n = Stdlib.String.length s in
  let pos = ref 0 in
  let rec atom_end i = if i < n && s.[i] <> ',' && s.[i] <> ')' && s.[i] <> '(' then atom_end (i + 1) else i in
  let rec value () : val0 =
    if !pos >= n then raise (Bad s);
    match s.[!pos] with
    | 'A' ->
      if !pos + 1 >= n || s.[!pos + 1] <> '(' then raise (Bad s);
      pos := !pos + 2;
      let items = ref [] in
      if s.[!pos] = ')' then (incr pos; VArr [])
      else begin
        let continue = ref true in
        while !continue do
          items := value () :: !items;
          if !pos >= n then raise (Bad s);
          if s.[!pos] = ',' then incr pos
          else if s.[!pos] = ')' then (incr pos; continue := false)
          else raise (Bad s)
        done;
        VArr (List.rev !items)
      end
    | _ ->
      let e = atom_end !pos in
      let a = Stdlib.String.sub s !pos (e - !pos) in
      pos := e;
      if a = "" then raise (Bad s);
      (match a.[0] with
       | 'N' | 'Q' -> VNum (parse_fl a)
       | 'S' -> VStr (bytes (Stdlib.String.sub a 1 (Stdlib.String.length a - 1)))
       | 'B' -> VBool (a = "B1")
       | 'O' -> VOther (z_of_dec (Stdlib.String.sub a 1 (Stdlib.String.length a - 1)))
       | _ -> raise (Bad s))
  in
  let v = value () in
  if !pos <> n then raise (Bad s);
  v
let parse_list (s : Stdlib.String.t) : val0 list = match parse_val s with VArr l -> l | _ -> raise (Bad s)
let parse_zlist (s : Stdlib.String.t) : z list =
  if s = "-" then [] else List.map z_of_dec (Stdlib.String.split_on_char ',' s)

let defects_of (f : Stdlib.String.t) : defects =
  let b i = i < Stdlib.String.length f && f.[i] = '1' in
  { df_cast = b 0; df_range_add = b 1; df_sort_cmp = b 2; df_stoi = b 3; df_rand0 = b 4; df_param_cast = b 5;
    df_bom = b 6; df_nolimit = b 7; df_asm = b 8; df_cfg_iter = b 9 }

let show_res (r : res) : Stdlib.String.t =
  let z = string_of_z in
  match r with
  | RNil -> "nil"
  | RElem i -> "elem:" ^ z i
  | RSlice (a, b) -> "slice:" ^ z a ^ ":" ^ z b
  | RNum x -> "num:" ^ z x
  | RDefault -> "default"
  | RResized x -> "resized:" ^ z x
  | RErased (a, b) -> "erased:" ^ z a ^ ":" ^ z b
  | RStored (a, b) -> "stored:" ^ z a ^ ":" ^ z b
  | RTokens l -> "tokens:" ^ Stdlib.String.concat "," (List.map (fun (a, b) -> z a ^ "." ^ z b) l)
  | RWalk l -> "walk:" ^ Stdlib.String.concat "," (List.map z l)
  | RShape (a, b) -> "shape:" ^ z a ^ ":" ^ z b
  | ROther -> "other"
let show_diags (ds : dg list) : Stdlib.String.t =
  let shown = List.filter_map (fun d -> let (lv, code) = dg_code d in
                                 let l = string_of_z lv in
                                 if int_of_string l <= 2 then Some (l ^ ":" ^ string_of_z code) else None) ds in
  if shown = [] then "-" else Stdlib.String.concat "," shown
let show (o : outcome) : Stdlib.String.t =
  match o with
  | Ret (ds, v, al) -> "R;" ^ show_diags ds ^ ";" ^ show_res v ^ ";" ^ string_of_z al
  | UB why -> "UB;" ^ string_of_coq why
  | Throw why -> "THROW;" ^ string_of_coq why
  | OutOfFuel -> "FUEL"

let lower_bytes (l : z list) : z list =
  List.map (fun c -> match c with
      | Zpos p -> let n = int_of_pos p in if n >= 65 && n <= 90 then z_of_int (n + 32) else c
      | _ -> c) l

let operand (s : Stdlib.String.t) : operand = if s = "-" then Nil else Val (coq_of_string s)

let () = iter_lines (fun line ->
  try
    match split_tab line with
    | flags :: op :: args ->
      let df = defects_of flags in
      let z = z_of_dec in
      (match op, args with
       | "select_scalar", [n; f] -> show (select_scalar df (z n) (parse_fl f))
       | "select_bool", [n; b] -> show (select_bool (z n) (b = "1"))
       | "select_range", [n; a] -> show (select_range df (z n) (parse_list a))
       | "select_string", [n; a] -> show (select_string df (z n) (parse_list a))
       | "resize", [n; f] -> show (resize_model df (z n) (parse_fl f))
       | "delete_range", [n; a] -> show (delete_range df (z n) (parse_list a))
       | "delete_at", [n; f] -> show (delete_at df (z n) (parse_fl f))
       | "set", [n; a] -> show (set_model df (z n) (parse_list a))
       | "push_back", [n] -> show (push_back (z n))
       | "push_back_unique", [n; b] -> show (push_back_unique (z n) (b = "1"))
       | "append", [n; m] -> show (append_model (z n) (z m))
       | "sort", [a; b] -> show (sort_model df (parse_list a) (b = "1"))
       | "param", [a; d] -> show (param_model df (parse_list a) (parse_list d))
       | "params", [a; d] -> show (params_model (parse_list a) (parse_list d))
       | "format", [a; pl] -> show (format_model df (parse_list a) (parse_zlist pl))
       | "to_array", [n] -> show (to_array (z n))
       | "to_string", [a] -> show (to_string df (parse_list a))
       | "split_string", [a; b] -> show (split_string (bytes a) (bytes b))
       | "select_minmax", [a] -> show (select_minmax (parse_list a))
       | "select_random", [n; r] -> show (select_random df (z n) (z r))
       | "to_fixed_unary", [f] -> show (to_fixed_unary df (parse_fl f))
       | "to_fixed_binary", [f] -> show (to_fixed_binary df (parse_fl f))
       | "cfg_iterate", [ids; ncont] -> show (cfg_iterate df (parse_zlist ids) (z ncont))
       | "from_sqf", [h] -> show (from_sqf df (bytes h))
       | "asm_make_array", [h; sf; cs] ->
         let sf' = if sf = "I" then SInvalid else if sf = "R" then SRange
           else SVal (parse_fl (Stdlib.String.sub sf 1 (Stdlib.String.length sf - 1))) in
         show (asm_make_array df (bytes h) sf' (z cs))
       | "asm_call_binary", [h; names] ->
         let regs = if names = "-" then [] else List.map bytes (Stdlib.String.split_on_char ',' names) in
         show (asm_call_binary df (fun k -> List.mem k regs) lower_bytes (bytes h))
       | "from_assembly", [a; sf; names] ->
         let sf' = if sf = "I" then SInvalid else if sf = "R" then SRange
           else SVal (parse_fl (Stdlib.String.sub sf 1 (Stdlib.String.length sf - 1))) in
         let regs = if names = "-" then [] else List.map bytes (Stdlib.String.split_on_char ',' names) in
         show (from_assembly df (fun k -> List.mem k regs) lower_bytes (parse_list a) sf')
       | "asm_split", [h] ->
         (match asm_split (bytes h) with
          | None -> "none"
          | Some (a, b) -> "some:" ^ hex_of_bytes (List.map (fun c -> int_of_string (string_of_z c)) a) ^ ":" ^
                           hex_of_bytes (List.map (fun c -> int_of_string (string_of_z c)) b))
       | "is_matrix", [a] -> (match is_matrix (parse_list a) with AOk -> "ok" | ANo -> "no" | AThrow -> "throw" | AUB -> "ub")
       | "matrix_transpose", [a] -> show (matrix_transpose (parse_list a))
       | "matrix_multiply", [a; b] -> show (matrix_multiply (parse_list a) (parse_list b))
       | "transpose_body", [a] -> show (transpose_body (parse_list a))
       | "multiply_body", [a; b] -> show (multiply_body (parse_list a) (parse_list b))
       | "vec3_unary", [k; a] -> show (vec3_unary (if k = "at" then VkAt else VkConv) (parse_list a))
       | "vec3_binary", [k; a; b] -> show (vec3_binary (if k = "at" then VkAt else VkConv) (parse_list a) (parse_list b))
       | "then_if_array", [c; a] -> show (then_if_array (c = "1") (parse_list a))
       | "private_array", [a] -> show (private_array (parse_list a))
       | "ns_getvar", [fnd; a] -> show (ns_getvar (fnd = "1") (parse_list a))
       | "ns_setvar", [a] -> show (ns_setvar (parse_list a))
       | "set_marker_pos", [ex; a] -> show (set_marker_pos (ex = "1") (parse_list a))
       | "set_marker_size", [ex; a] -> show (set_marker_size (ex = "1") (parse_list a))
       | "create_marker", [nu; ex; a] -> show (create_marker (nu = "1") (ex = "1") (parse_list a))
       | "cfg_select", [nu; ids; f] -> show (cfg_select df (nu = "1") (parse_zlist ids) (parse_fl f))
       | "callext_args", [hp; ld; a] -> show (callext_args (hp = "1") (ld = "1") (parse_list a))
       | "bom", [h] -> (match bom_model df (bytes h) with BSkip k -> "skip:" ^ string_of_z k | BUB -> "UB")
       | "dispatch_n", [n] -> (match d_nular (coq_of_string n) with NFound -> "found" | NUnknown -> "unknown")
       | "dispatch_u", [n; r] ->
         (match d_unary (coq_of_string n) (operand r) with
          | UNilRight -> "nilright" | UFound t -> "found:" ^ string_of_coq t | UUnknown -> "unknown")
       | "dispatch_b", [n; l; r] ->
         (match d_binary (coq_of_string n) (operand l) (operand r) with
          | BNilRight -> "nilright" | BNilLeft -> "nilleft"
          | BFound (a, b) -> "found:" ^ string_of_coq a ^ ":" ^ string_of_coq b | BUnknown -> "unknown")
       | _ -> "BADOP")
    | _ -> "BADLINE"
  with Bad s -> "BADVALUE " ^ s | Failure s -> "BADVALUE " ^ s)
